#!/venv/bin/python
"""Print, for every label floor, the fraction observed in evidence/<ID>.json and its ratio to the floor.
A ratio below ~1.5 means the floor can trip by sampling noise at some seed (a harness error on the unchanged tree)."""
import importlib
import json
import os
import sys

VERIF = os.path.dirname(os.path.dirname(os.path.abspath(__file__)))
sys.path.insert(0, VERIF)
sys.path.insert(0, os.path.join(VERIF, ".deps"))
worst = []
for i in range(1, 21):
    pid = "C%02d" % i
    mod = importlib.import_module("pv.props.c%02d" % i)
    ev = json.load(open(os.path.join(VERIF, "evidence", pid + ".json")))
    for cl in mod.CLAUSES:
        if not cl.floors:
            continue
        st = ev["coverage"]["clauses"].get(cl.name)
        if not st:
            continue
        n = st["evaluations"]
        for lab, fl in cl.floors.items():
            frac = st["labels"].get(lab, 0) / max(n, 1)
            sd = (frac * (1 - frac) / max(n, 1)) ** 0.5
            z = (frac - fl) / sd if sd else float("inf")
            worst.append((z, pid, cl.name, lab, fl, frac, n))
for z, pid, cn, lab, fl, frac, n in sorted(worst):
    print("%6.1f sd  %s %-22s %-28s floor %.3f observed %.3f (n=%d)" % (z, pid, cn, lab, fl, frac, n))
