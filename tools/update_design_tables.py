#!/venv/bin/python
"""Regenerate the machine-written tables of DESIGN.md (between the SEEDED-TABLE markers) from seeded/*/meta.json."""
import os
import subprocess
V = os.path.dirname(os.path.dirname(os.path.abspath(__file__)))
p = os.path.join(V, "DESIGN.md")
s = open(p).read()
a = s.index("<!-- SEEDED-TABLE-BEGIN -->") + len("<!-- SEEDED-TABLE-BEGIN -->\n")
b = s.index("<!-- SEEDED-TABLE-END -->")
table = subprocess.run([os.path.join(V, "tools", "seeded_table.py")], capture_output=True, text=True).stdout
open(p, "w").write(s[:a] + table + s[b:])
print("updated", len(table.splitlines()), "lines")
