#!/venv/bin/python
"""Run the hand-written mutant catalogue (tools/mutants.json) against the quick tier of each property.

    tools/sensitivity.py [--only C05,C12] [--tests]

Every mutant is applied to a scratch copy of /repo under /tmp/pv-scratch-* (removed afterwards); the check is pointed at it
with PERSIM_VERIF_ROOT.  Result: tools/sensitivity_report.json (killed / survived / harness-error per mutant)."""
import argparse
import json
import os
import shutil
import subprocess
import sys
import tempfile
import time

VERIF = os.path.dirname(os.path.dirname(os.path.abspath(__file__)))


def main():
    ap = argparse.ArgumentParser()
    ap.add_argument("--only", default="")
    ap.add_argument("--tests", action="store_true")
    ap.add_argument("--tier", default="quick")
    a = ap.parse_args()
    cat = json.load(open(os.path.join(VERIF, "tools", "mutants.json")))
    only = set(a.only.split(",")) if a.only else None
    rep_path = os.path.join(VERIF, "tools", "sensitivity_report.json")
    report = {}
    if os.path.exists(rep_path) and only:
        report = {r["id"]: r for r in json.load(open(rep_path))["mutants"]}
    for m in cat:
        if only and m["property"] not in only and m["id"] not in only:
            continue
        scratch = tempfile.mkdtemp(prefix="pv-scratch-")
        t0 = time.time()
        entry = {"id": m["id"], "property": m["property"], "file": m["file"], "expect": m.get("expect", "killed"), "note": m.get("note", "")}
        try:
            root = os.path.join(scratch, "repo")
            shutil.copytree("/repo", root, ignore=shutil.ignore_patterns(".git", "__pycache__", "docs", "*.egg-info"))
            p = os.path.join(root, m["file"])
            s = open(p).read()
            if m["old"] not in s:
                entry["result"] = "stale (text not found)"
            else:
                open(p, "w").write(s.replace(m["old"], m["new"], 1))
                env = dict(os.environ, PERSIM_VERIF_ROOT=root, PV_REPLAY_DIR=os.path.join(scratch, "replays"))
                if a.tests:
                    t = subprocess.run(["/venv/bin/python", "-m", "pytest", "-q", "-x", "-p", "no:cacheprovider", "test"], cwd=root,
                                       env=dict(env, PYTHONPATH=root), capture_output=True, text=True, timeout=1800)
                    entry["repo_tests"] = (t.stdout.strip().splitlines() or ["?"])[-1]
                try:
                    r = subprocess.run([os.path.join(VERIF, "check"), m["property"], "--tier", a.tier, "--no-evidence"], env=env,
                                       capture_output=True, text=True, timeout=3600)
                    entry["result"] = {0: "survived", 1: "killed", 2: "harness-error"}.get(r.returncode, "rc=%s" % r.returncode)
                    entry["signatures"] = [l.strip()[:160] for l in r.stdout.splitlines() if l.startswith("  ")][:3]
                except subprocess.TimeoutExpired:
                    entry["result"] = "timeout"
        finally:
            shutil.rmtree(scratch, ignore_errors=True)
        entry["wall_s"] = round(time.time() - t0, 1)
        report[m["id"]] = entry
        print("%-34s %-10s expect=%-10s %s" % (m["id"], entry["result"], entry["expect"], (entry.get("signatures") or [""])[0][:110]), flush=True)
        json.dump({"tier": a.tier, "mutants": list(report.values())}, open(rep_path, "w"), indent=1)
    res = list(report.values())
    print("killed %d / survived %d / other %d of %d" % (sum(r["result"] == "killed" for r in res), sum(r["result"] == "survived" for r in res),
                                                       sum(r["result"] not in ("killed", "survived") for r in res), len(res)))


if __name__ == "__main__":
    sys.exit(main())
