#!/venv/bin/python
"""Regenerate MANIFEST.json from pv/registry.py (claimed = property module exists)."""
import json
import os
import sys

VERIF = os.path.dirname(os.path.dirname(os.path.abspath(__file__)))
sys.path.insert(0, VERIF)
from pv.registry import REGISTRY, HOOK_COMMITS  # noqa: E402

ids = [json.loads(l)["id"] for l in open(os.path.join(VERIF, "properties.jsonl"))]
checks, na = [], []
for pid in ids:
    reg = REGISTRY.get(pid)
    have = os.path.exists(os.path.join(VERIF, "pv", "props", pid.lower() + ".py"))
    if not reg or not have:
        na.append({"property_id": pid, "reason": "check not built yet in this round (design in DESIGN.md section 4); nothing is claimed for it"})
        continue
    checks.append({
        "property_id": pid,
        "quick_cmd": "./check %s --tier quick" % pid,
        "thorough_cmd": "./check %s --tier thorough" % pid,
        "evidence_file": "evidence/%s.json" % pid,
        "replay_cmd_template": "./check %s --replay {path}" % pid,
        "engine": "pv",
        "level_claimed": {"category": "exploration", "text": reg["level"], "design_ref": "DESIGN.md section 4, %s" % pid},
        "level_note": reg["note"],
        "technique": reg["technique"],
    })
man = {
    "version": 1,
    "setup_cmd": "/venv/bin/python -m pv.deps",
    "hooks": {
        "guard": "PERSIM_VERIF",
        "enable": "environment variable PERSIM_VERIF=1 (set by ./check); persim is pure Python and imported from /repo's working tree in fresh processes, so there is no build step",
        "baseline_off_cmd": "cd /repo && env -u PERSIM_VERIF /venv/bin/python -m pytest -ra -q -p no:cacheprovider --timeout=900 --continue-on-collection-errors",
        "source_commits": HOOK_COMMITS,
        "add_only": True,
    },
    "engines": [{
        "name": "pv", "path": "pv/",
        "serves_properties": [c["property_id"] for c in checks],
        "kind_free_text": "Hypothesis-driven generated-input search (16 fresh shard processes per run, seeds derived from VERIF_SEED) against explicit oracles: brute-force definitions, independent reference algorithms, metamorphic relations and model-based call histories; exhaustive enumeration of small finite slices; own bounded JSON shrinker; replay files are plain JSON cases executed without Hypothesis; atheris (libFuzzer) coverage-guided stage in the thorough tier for the pure-Python algorithms.",
    }],
    "checks": checks,
    "not_applicable": na,
    "notes": "All checks: exit 0 = held on everything explored (KNOWN-FINDING lines for listed open findings), exit 1 + VIOLATION line, exit 2 = harness error (never a verdict). known_findings.json is read-only at run time.",
}
if not na:
    man["not_applicable"] = []
with open(os.path.join(VERIF, "MANIFEST.json"), "w") as fh:
    json.dump(man, fh, indent=1)
try:
    from pv import deps
    deps.add_path()
    import jsonschema
    jsonschema.validate(man, json.load(open(os.path.join(VERIF, "pv", "schemas", "MANIFEST.schema.json"))))
    print("MANIFEST.json valid: %d checks, %d not_applicable" % (len(checks), len(na)))
except ImportError:
    print("written (jsonschema unavailable)")
