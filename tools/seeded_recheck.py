#!/venv/bin/python
"""Regression pass over all kept seeded changes: does a check that caught a change when it was recorded still catch it?

    tools/seeded_recheck.py [--only C05] [--out tools/seeded_recheck.json]

Each patch is applied to a scratch worktree of /repo's HEAD (removed afterwards); a patch that no longer applies (the
file was touched by a later fix: commit) is reported as 'stale patch', not as a miss. The checks run in the fail-fast /
no-shrink mode of the sensitivity tooling at the full quick budget."""
import argparse
import glob
import json
import os
import shutil
import subprocess
import sys
import tempfile

V = os.path.dirname(os.path.dirname(os.path.abspath(__file__)))


def sh(cmd, **kw):
    return subprocess.run(cmd, capture_output=True, text=True, **kw)


def main():
    ap = argparse.ArgumentParser()
    ap.add_argument("--only", default="")
    ap.add_argument("--out", default=os.path.join(V, "tools", "seeded_recheck.json"))
    a = ap.parse_args()
    res = {}
    if os.path.exists(a.out):
        res = json.load(open(a.out))
    for d in sorted(glob.glob(os.path.join(V, "seeded", "*"))):
        name = os.path.basename(d)
        if a.only and not any(name == o or (len(o) == 3 and name.startswith(o)) for o in a.only.split(",")):
            continue
        meta = json.load(open(os.path.join(d, "meta.json")))
        caught = [c for c, v in meta.get("checks", {}).items() if v.get("verdict") == "caught"]
        if not caught:
            res[name] = {"status": "never caught"}
            continue
        # prefer the check of the property the change was written against
        caught.sort(key=lambda c: c != meta["property"])
        base = tempfile.mkdtemp(prefix="pv-seed-")
        wt = os.path.join(base, "wt")
        try:
            sh(["git", "-C", "/repo", "worktree", "add", "--detach", wt, "HEAD"])
            r = sh(["git", "-C", wt, "apply", os.path.join(d, "patch.diff")])
            if r.returncode:
                r = sh(["git", "-C", wt, "apply", "--3way", os.path.join(d, "patch.diff")])
            fuzzed = False
            if r.returncode:
                # last resort: GNU patch with fuzz 2 (fuzz 3 once placed a hunk inside a docstring; context lines changed by a later fix: commit); the result must still compile
                sh(["git", "-C", wt, "reset", "-q", "--hard"])
                sh(["git", "-C", wt, "clean", "-fdq"])
                r2 = sh(["patch", "-p1", "-F2", "--no-backup-if-mismatch", "-i", os.path.join(d, "patch.diff")], cwd=wt)
                rej = [f for f in sh(["git", "-C", wt, "status", "--short"]).stdout.split() if f.endswith(".rej") or f.endswith(".orig")]
                comp = sh(["/venv/bin/python", "-m", "compileall", "-q", "persim"], cwd=wt)
                if r2.returncode == 0 and not rej and comp.returncode == 0:
                    r = r2
                    fuzzed = True
            if r.returncode:
                res[name] = {"status": "stale patch", "detail": r.stderr.strip()[:200]}
            else:
                out = {"status": "missed", "tried": []}
                for c in caught:
                    env = dict(os.environ, PERSIM_VERIF_ROOT=wt, PV_REPLAY_DIR=os.path.join(base, "replays"), PV_FAIL_FAST="1", PV_NO_SHRINK="1")
                    rr = sh([os.path.join(V, "check"), c, "--tier", "quick", "--no-evidence"], env=env, timeout=3600)
                    out["tried"].append({"check": c, "rc": rr.returncode,
                                         "sig": next((l.strip()[:160] for l in rr.stdout.splitlines() if l.startswith("  ")), "")})
                    if rr.returncode == 1:
                        out["status"] = "caught"
                        out["by"] = c
                        break
                if fuzzed:
                    out["applied_with_fuzz"] = True
                res[name] = out
        finally:
            sh(["git", "-C", "/repo", "worktree", "remove", "--force", wt])
            shutil.rmtree(base, ignore_errors=True)
        print("%-10s %-12s %s" % (name, res[name]["status"], res[name].get("by", res[name].get("detail", ""))), flush=True)
        json.dump(res, open(a.out, "w"), indent=1)
    from collections import Counter
    print(Counter(v["status"] for v in res.values()))


if __name__ == "__main__":
    sys.exit(main())
