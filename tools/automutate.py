#!/venv/bin/python
"""Automatic mutation sweep: are the checks sensitive to small, test-suite-passing changes ANYWHERE in the anchored code?

    tools/automutate.py generate [--seed 1] [--per-file 40] [--out .work/automut/mutants.json]
    tools/automutate.py tests    [--jobs 16]          stage 1: which mutants survive the repository's own 108 tests
    tools/automutate.py checks   [--only C05,...]     stage 2: run the quick tier (fail-fast, no shrinking) of the mapped properties
    tools/automutate.py report                        table of survivors (to be triaged by hand: equivalent / out of scope / gap)

Mutants are produced from the AST (operator, constant, call and statement mutations) and applied as TEXT edits at the node's
source position, so each is a one-token change a reviewer could overlook. Every mutant is applied to a scratch copy of /repo
under /tmp/pv-automut-* (removed afterwards); /repo is never touched. State: <out dir>/mutants.json (rewritten after every step).
This is sensitivity tooling: it is not a registered check and produces no evidence."""
import argparse
import ast
import json
import os
import random
import shutil
import subprocess
import sys
import tempfile
import time
from concurrent.futures import ThreadPoolExecutor

VERIF = os.path.dirname(os.path.dirname(os.path.abspath(__file__)))
REPO = "/repo"
# every mutant is a text edit at a byte offset, so the sweep works on a FROZEN copy of /repo taken by `generate`
# (<out dir>/base); when /repo changes, `generate` again - results of mutants that are textually the same are carried over
PY = "/venv/bin/python"

# file -> properties whose statement is anchored in (or directly depends on) that file, in the order they are tried
FILE_PROPS = {
    "persim/bottleneck.py": ["C06", "C01", "C07"],
    "persim/wasserstein.py": ["C06", "C02", "C07"],
    "persim/heat.py": ["C14", "C19"],
    "persim/sliced_wasserstein.py": ["C15", "C19"],
    "persim/persistent_entropy.py": ["C16", "C19"],
    "persim/gromov_hausdorff.py": ["C17", "C05"],
    "persim/images.py": ["C12", "C04", "C11", "C18"],
    "persim/images_kernels.py": ["C13", "C04"],
    "persim/images_weights.py": ["C04", "C19"],
    "persim/visuals.py": ["C20"],
    "persim/landscapes/exact.py": ["C03", "C09", "C10"],
    "persim/landscapes/approximate.py": ["C08", "C09", "C10"],
    "persim/landscapes/auxiliary.py": ["C09", "C10", "C08"],
    "persim/landscapes/tools.py": ["C08", "C09"],
    "persim/landscapes/transformer.py": ["C18", "C08"],
    "persim/landscapes/base.py": ["C10", "C03"],
    "persim/landscapes/visuals.py": ["C20"],
}

CMP = {ast.Lt: ["<=", ">"], ast.LtE: ["<", ">="], ast.Gt: [">=", "<"], ast.GtE: [">", "<="], ast.Eq: ["!="], ast.NotEq: ["=="],
       ast.Is: ["is not"], ast.IsNot: ["is"]}
CMP_TXT = {ast.Lt: "<", ast.LtE: "<=", ast.Gt: ">", ast.GtE: ">=", ast.Eq: "==", ast.NotEq: "!=", ast.Is: "is", ast.IsNot: "is not"}
BIN = {ast.Add: ["-"], ast.Sub: ["+"], ast.Mult: ["/"], ast.Div: ["*"], ast.FloorDiv: ["/"], ast.Mod: ["//"]}
BIN_TXT = {ast.Add: "+", ast.Sub: "-", ast.Mult: "*", ast.Div: "/", ast.FloorDiv: "//", ast.Mod: "%"}
CALL_SWAP = {"min": "max", "max": "min", "ceil": "floor", "floor": "ceil", "argmax": "argmin", "argmin": "argmax", "any": "all", "all": "any",
             "amin": "amax", "amax": "amin", "maximum": "minimum", "minimum": "maximum", "zeros": "ones", "sum": "max", "sqrt": "abs",
             "hstack": "vstack", "vstack": "hstack", "floor_divide": "divide", "triu": "tril", "isfinite": "isinf", "sort": "unique",
             "append": "extend", "cos": "sin", "sin": "cos", "exp": "expm1", "log": "log2"}


class Collector(ast.NodeVisitor):
    def __init__(self, src):
        self.src = src
        self.lines = src.splitlines(keepends=True)
        self.offs = [0]
        for l in self.lines:
            self.offs.append(self.offs[-1] + len(l))
        self.out = []          # (start, end, new text, kind, lineno)
        self.doc_nodes = set()

    def pos(self, lineno, col):
        # col is in utf8 bytes; the sources are ascii apart from a few docstrings
        line = self.lines[lineno - 1]
        return self.offs[lineno - 1] + len(line.encode()[:col].decode(errors="ignore"))

    def span(self, node):
        return self.pos(node.lineno, node.col_offset), self.pos(node.end_lineno, node.end_col_offset)

    def add(self, a, b, new, kind, lineno):
        if self.src[a:b] != new:
            self.out.append((a, b, new, kind, lineno))

    def between(self, left, right, old):
        """position of operator text `old` between two nodes"""
        a = self.span(left)[1]
        b = self.span(right)[0]
        i = self.src.find(old, a, b)
        return (i, i + len(old)) if i >= 0 else None

    def visit_Compare(self, node):
        left = node.left
        for op, right in zip(node.ops, node.comparators):
            if type(op) in CMP:
                p = self.between(left, right, CMP_TXT[type(op)])
                if p:
                    for new in CMP[type(op)]:
                        self.add(p[0], p[1], new, "cmp", node.lineno)
            left = right
        self.generic_visit(node)

    def visit_BinOp(self, node):
        if type(node.op) in BIN and not (isinstance(node.op, ast.Mod) and isinstance(node.left, ast.Constant) and isinstance(node.left.value, str)):
            p = self.between(node.left, node.right, BIN_TXT[type(node.op)])
            if p:
                for new in BIN[type(node.op)]:
                    self.add(p[0], p[1], new, "binop", node.lineno)
        self.generic_visit(node)

    def visit_AugAssign(self, node):
        if type(node.op) in BIN:
            p = self.between(node.target, node.value, BIN_TXT[type(node.op)] + "=")
            if p:
                self.add(p[0], p[1], BIN[type(node.op)][0] + "=", "augassign", node.lineno)
        self.generic_visit(node)

    def visit_BoolOp(self, node):
        old = "and" if isinstance(node.op, ast.And) else "or"
        p = self.between(node.values[0], node.values[1], old)
        if p:
            self.add(p[0], p[1], "or" if old == "and" else "and", "boolop", node.lineno)
        self.generic_visit(node)

    def visit_UnaryOp(self, node):
        a, b = self.span(node)
        oa, ob = self.span(node.operand)
        if isinstance(node.op, (ast.USub, ast.Not)):
            self.add(a, oa, "", "unary_removed", node.lineno)
        self.generic_visit(node)

    def visit_Constant(self, node):
        if id(node) in self.doc_nodes:
            return
        a, b = self.span(node)
        v = node.value
        if isinstance(v, bool):
            self.add(a, b, str(not v), "const_bool", node.lineno)
        elif isinstance(v, int):
            for new in ({v + 1, v - 1} if v not in (0, 1) else {1 - v, v + 1 if v else -1}):
                self.add(a, b, repr(new), "const_int", node.lineno)
        elif isinstance(v, float):
            for new in (v * 2.0, v * 0.5) if v != 0 else (1.0,):
                self.add(a, b, repr(new), "const_float", node.lineno)
        elif v is None:
            pass

    def visit_Call(self, node):
        f = node.func
        name = f.attr if isinstance(f, ast.Attribute) else (f.id if isinstance(f, ast.Name) else None)
        if name in CALL_SWAP:
            a, b = self.span(f)
            old = self.src[a:b]
            if old.endswith(name):
                self.add(b - len(name), b, CALL_SWAP[name], "call_swap", node.lineno)
        if name in ("abs", "copy", "deepcopy", "array", "asarray", "sorted", "list", "float", "int", "round", "reversed") and len(node.args) == 1 and not node.keywords:
            a, b = self.span(node)
            aa, ab = self.span(node.args[0])
            self.add(a, b, self.src[aa:ab], "call_unwrapped", node.lineno)
        # swap the first two positional arguments
        if len(node.args) >= 2 and not any(isinstance(x, ast.Starred) for x in node.args[:2]):
            a0, b0 = self.span(node.args[0])
            a1, b1 = self.span(node.args[1])
            if self.src[a0:b0] != self.src[a1:b1]:
                self.add(a0, b1, self.src[a1:b1] + self.src[b0:a1] + self.src[a0:b0], "args_swapped", node.lineno)
        self.generic_visit(node)

    def visit_Subscript(self, node):
        s = node.slice
        if isinstance(s, ast.Slice) and s.step is not None and isinstance(s.step, ast.UnaryOp) and s.lower is None and s.upper is None:
            a, b = self.span(node)
            va, vb = self.span(node.value)
            self.add(vb, b, "", "reverse_slice_removed", node.lineno)
        self.generic_visit(node)

    def visit_If(self, node):
        a, b = self.span(node.test)
        self.add(a, b, "(" + self.src[a:b] + ") and False", "if_never", node.lineno)
        self.add(a, b, "(" + self.src[a:b] + ") or True", "if_always", node.lineno)
        self.generic_visit(node)

    def _stmt_delete(self, node):
        if isinstance(node, (ast.Assign, ast.AugAssign, ast.Expr)) and node.lineno == node.end_lineno:
            if isinstance(node, ast.Expr) and isinstance(node.value, ast.Constant):
                return
            if isinstance(node, ast.Assign) and not isinstance(node, ast.AugAssign):
                # deleting a first assignment only produces a NameError; keep deletions of re-assignments / attribute / item targets
                t = node.targets[0]
                if isinstance(t, ast.Name):
                    return
            a, b = self.span(node)
            self.add(a, b, "pass", "stmt_deleted", node.lineno)

    def generic_visit(self, node):
        if isinstance(node, (ast.FunctionDef, ast.ClassDef, ast.Module)):
            body = node.body
            if body and isinstance(body[0], ast.Expr) and isinstance(body[0].value, ast.Constant) and isinstance(body[0].value.value, str):
                self.doc_nodes.add(id(body[0].value))
        for child in ast.iter_child_nodes(node):
            if isinstance(child, ast.stmt):
                self._stmt_delete(child)
        super().generic_visit(node)

    def visit_Raise(self, node):      # messages and exception construction: not behaviour a property speaks about
        return

    def visit_JoinedStr(self, node):
        return


def base_dir(a):
    return os.path.join(os.path.dirname(a.out), "base")


def mutants_of(path, root=REPO):
    src = open(os.path.join(root, path)).read()
    c = Collector(src)
    c.visit(ast.parse(src))
    out = []
    seen = set()
    for a, b, new, kind, lineno in c.out:
        key = (a, b, new)
        if key in seen:
            continue
        seen.add(key)
        mutated = src[:a] + new + src[b:]
        try:
            ast.parse(mutated)
        except SyntaxError:
            continue
        line_old = src.splitlines()[lineno - 1].strip()
        out.append({"file": path, "start": a, "end": b, "new": new, "kind": kind, "line": lineno, "old": src[a:b], "context": line_old[:160]})
    return out


def carry_key(m, seen):
    k = (m["file"], m["context"], m["old"], m["new"], m["kind"])
    seen[k] = seen.get(k, 0) + 1
    return k + (seen[k],)


def cmd_generate(a):
    rng = random.Random(a.seed)
    allm = []
    old = {}
    if os.path.exists(a.out):
        seen = {}
        for m in json.load(open(a.out))["mutants"]:
            old[carry_key(m, seen)] = m
    base = base_dir(a)
    shutil.rmtree(base, ignore_errors=True)
    os.makedirs(os.path.dirname(base), exist_ok=True)
    shutil.copytree(REPO, base, ignore=shutil.ignore_patterns(".git", "__pycache__", "docs", "*.egg-info", "notebooks", ".pytest_cache"))
    for f in sorted(FILE_PROPS):
        ms = mutants_of(f, base)
        # do not mutate warnings / prints / plotting cosmetics lines: heuristically drop lines that only format messages
        ms = [m for m in ms if not any(t in m["context"] for t in ("warnings.warn", "print(", "raise ", "__all__", "import "))]
        rng.shuffle(ms)
        per = a.per_file
        # spread over kinds: round-robin by kind
        by = {}
        for m in ms:
            by.setdefault(m["kind"], []).append(m)
        pick = []
        while len(pick) < per and any(by.values()):
            for k in sorted(by):
                if by[k] and len(pick) < per:
                    pick.append(by[k].pop())
        print("%-36s %4d candidates, %3d picked" % (f, len(ms), len(pick)))
        allm.extend(pick)
    seen = {}
    carried = 0
    for i, m in enumerate(allm):
        m["id"] = "M%04d" % i
        o = old.get(carry_key(m, seen))
        if o:
            for k in ("tests", "tests_line", "result", "checks", "killed_by", "triage", "wall_s"):
                if k in o:
                    m[k] = o[k]
            carried += 1
    print("results carried over from the previous run for %d textually identical mutants" % carried)
    os.makedirs(os.path.dirname(a.out), exist_ok=True)
    json.dump({"seed": a.seed, "mutants": allm}, open(a.out, "w"), indent=1)
    print("%d mutants -> %s" % (len(allm), a.out))


BASE = None


def make_copy(m):
    scratch = tempfile.mkdtemp(prefix="pv-automut-")
    root = os.path.join(scratch, "repo")
    shutil.copytree(BASE, root, ignore=shutil.ignore_patterns(".git", "__pycache__", "docs", "*.egg-info", "notebooks", ".pytest_cache"))
    p = os.path.join(root, m["file"])
    src = open(p).read()
    assert src[m["start"]:m["end"]] == m["old"], "stale mutant %s" % m["id"]
    open(p, "w").write(src[:m["start"]] + m["new"] + src[m["end"]:])
    return scratch, root


def run_tests(m):
    scratch, root = make_copy(m)
    try:
        env = dict(os.environ, PYTHONPATH=root, MPLBACKEND="Agg", OMP_NUM_THREADS="1", OPENBLAS_NUM_THREADS="1")
        env.pop("PERSIM_VERIF", None)
        t0 = time.time()
        try:
            r = subprocess.run([PY, "-m", "pytest", "-q", "-x", "-p", "no:cacheprovider", "test"], cwd=root, env=env,
                               capture_output=True, text=True, timeout=900)
            last = (r.stdout.strip().splitlines() or ["?"])[-1]
            res = "pass" if r.returncode == 0 else "fail"
        except subprocess.TimeoutExpired:
            last, res = "timeout", "fail"
        return m["id"], res, last[:120], round(time.time() - t0, 1)
    finally:
        shutil.rmtree(scratch, ignore_errors=True)


def cmd_tests(a):
    data = json.load(open(a.out))
    todo = [m for m in data["mutants"] if "tests" not in m]
    print("%d mutants to test" % len(todo))
    byid = {m["id"]: m for m in data["mutants"]}
    done = 0
    from concurrent.futures import as_completed
    with ThreadPoolExecutor(a.jobs) as ex:
        for fut in as_completed([ex.submit(run_tests, m) for m in todo]):
            mid, res, last, wall = fut.result()
            byid[mid]["tests"] = res
            byid[mid]["tests_line"] = last
            done += 1
            if done % 16 == 0 or done == len(todo):
                json.dump(data, open(a.out, "w"), indent=1)
                print("%d/%d  pass so far: %d" % (done, len(todo), sum(m.get("tests") == "pass" for m in data["mutants"])), flush=True)
    json.dump(data, open(a.out, "w"), indent=1)


def cmd_checks(a):
    data = json.load(open(a.out))
    only = set(a.only.split(",")) if a.only else None
    todo = [m for m in data["mutants"] if m.get("tests") == "pass" and ("result" not in m or a.redo)]
    if a.ids:
        todo = [m for m in data["mutants"] if m["id"] in set(a.ids.split(","))]
    print("%d test-surviving mutants to check" % len(todo))
    for n, m in enumerate(todo):
        scratch, root = make_copy(m)
        t0 = time.time()
        try:
            m["checks"] = {}
            m["result"] = "survived"
            for pid in FILE_PROPS[m["file"]]:
                if only and pid not in only:
                    continue
                env = dict(os.environ, PERSIM_VERIF_ROOT=root, PV_REPLAY_DIR=os.path.join(scratch, "replays"), PV_FAIL_FAST="1", PV_NO_SHRINK="1",
                           PV_CASE_TIME_LIMIT="30", PV_BUDGET_SCALE=os.environ.get("PV_BUDGET_SCALE", "0.5"))
                try:
                    r = subprocess.run([os.path.join(VERIF, "check"), pid, "--tier", "quick", "--no-evidence"], env=env, capture_output=True, text=True, timeout=1500)
                    sigs = [l.strip()[:200] for l in r.stdout.splitlines() if l.startswith("  ")][:2]
                    herr = [l.strip()[:300] for l in r.stdout.splitlines() if l.startswith("HARNESS-ERROR")][:2]
                    m["checks"][pid] = {"rc": r.returncode, "sigs": sigs or herr}
                    if r.returncode == 1:
                        m["result"] = "killed"
                        m["killed_by"] = pid
                        break
                    if r.returncode == 2:
                        # a harness error on a mutant (import failure, generator floor, oracle crash on garbage) - recorded, next property tried
                        m["result"] = "harness-error"
                except subprocess.TimeoutExpired:
                    m["checks"][pid] = {"rc": "timeout", "sigs": []}
                    m["result"] = "timeout"
        finally:
            shutil.rmtree(scratch, ignore_errors=True)
        m["wall_s"] = round(time.time() - t0, 1)
        print("[%d/%d] %s %-34s L%-4d %-18s %-13s %s | %s -> %s" % (n + 1, len(todo), m["id"], m["file"], m["line"], m["kind"], m["result"], m.get("killed_by", ""),
                                                                     m["old"][:30].replace("\n", " "), m["new"][:30].replace("\n", " ")), flush=True)
        json.dump(data, open(a.out, "w"), indent=1)


def cmd_report(a):
    data = json.load(open(a.out))
    ms = data["mutants"]
    tested = [m for m in ms if "tests" in m]
    passed = [m for m in tested if m["tests"] == "pass"]
    checked = [m for m in passed if "result" in m]
    print("mutants %d, tested %d, pass the 108 tests %d, checked %d: killed %d, survived %d, other %d" % (
        len(ms), len(tested), len(passed), len(checked), sum(m["result"] == "killed" for m in checked),
        sum(m["result"] == "survived" for m in checked), sum(m["result"] not in ("killed", "survived") for m in checked)))
    for m in checked:
        if m["result"] != "killed":
            print("%s %-34s L%-4d %-18s %-13s  %r -> %r   | %s   [%s]" % (m["id"], m["file"], m["line"], m["kind"], m["result"], m["old"][:40], m["new"][:40], m["context"][:100],
                                                                   m.get("triage", "")))


def main():
    ap = argparse.ArgumentParser()
    ap.add_argument("cmd", choices=["generate", "tests", "checks", "report"])
    ap.add_argument("--seed", type=int, default=1)
    ap.add_argument("--per-file", type=int, default=40)
    ap.add_argument("--out", default=os.path.join(VERIF, ".work", "automut", "mutants.json"))
    ap.add_argument("--jobs", type=int, default=16)
    ap.add_argument("--only", default="")
    ap.add_argument("--ids", default="")
    ap.add_argument("--redo", action="store_true")
    a = ap.parse_args()
    global BASE
    BASE = base_dir(a)
    {"generate": cmd_generate, "tests": cmd_tests, "checks": cmd_checks, "report": cmd_report}[a.cmd](a)


if __name__ == "__main__":
    sys.exit(main())
