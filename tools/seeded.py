#!/venv/bin/python
"""Confirm a seeded property-breaking change and run the checks against it.

    tools/seeded.py confirm <src dir> <PID> <A|B> [--checks C01,C06] [--tier quick]

<src dir> holds patch_<X>.diff, demo_<X>.py and meta.json as delivered by a sub-agent. In a scratch git worktree of /repo
(outside /repo and /verif, removed afterwards) this
  1. applies the patch, runs the repository's test suite (must stay green),
  2. runs the demonstration with the change (must fail) and without it (must pass),
  3. runs the named checks (default: the property's own) against the patched worktree via PERSIM_VERIF_ROOT,
and writes /verif/seeded/<PID>-<X>/{patch.diff, demo.py, meta.json}."""
import argparse
import json
import os
import shutil
import subprocess
import sys
import tempfile

VERIF = os.path.dirname(os.path.dirname(os.path.abspath(__file__)))
PY = "/venv/bin/python"


def sh(cmd, **kw):
    return subprocess.run(cmd, capture_output=True, text=True, **kw)


def main():
    ap = argparse.ArgumentParser()
    ap.add_argument("cmd")
    ap.add_argument("src")
    ap.add_argument("pid")
    ap.add_argument("x")
    ap.add_argument("--checks", default="")
    ap.add_argument("--tier", default="quick")
    ap.add_argument("--skip-tests", action="store_true")
    a = ap.parse_args()
    patch = os.path.abspath(os.path.join(a.src, "patch_%s.diff" % a.x))
    demo = os.path.abspath(os.path.join(a.src, "demo_%s.py" % a.x))
    meta_src = json.load(open(os.path.join(a.src, "meta.json")))
    change = next((c for c in meta_src.get("changes", []) if c.get("id") == a.x), {})
    base = tempfile.mkdtemp(prefix="pv-seed-")
    wt = os.path.join(base, "wt")
    result = {"property": a.pid, "change": a.x, "summary": change.get("summary", ""), "needs": change.get("needs", ""), "ran": []}
    try:
        r = sh(["git", "-C", "/repo", "worktree", "add", "--detach", wt, "HEAD"])
        if r.returncode:
            print("worktree failed", r.stderr)
            return 2
        env = dict(os.environ, PYTHONPATH=wt, MPLBACKEND="Agg")
        env.pop("PERSIM_VERIF", None)
        d0 = sh([PY, demo], cwd=wt, env=env, timeout=900)
        result["demo_without_change"] = "exit %d" % d0.returncode
        r = sh(["git", "-C", wt, "apply", patch])
        if r.returncode:
            print("patch does not apply:", r.stderr)
            result["error"] = "patch does not apply to HEAD"
            return 3
        if not a.skip_tests:
            t = sh([PY, "-m", "pytest", "-q", "-p", "no:cacheprovider", "test"], cwd=wt, env=env, timeout=1800)
            result["tests_with_change"] = (t.stdout.strip().splitlines() or ["?"])[-1]
            result["ran"].append("cd <worktree> && PYTHONPATH=<worktree> /venv/bin/python -m pytest -q -p no:cacheprovider test")
        d1 = sh([PY, demo], cwd=wt, env=env, timeout=900)
        result["demo_with_change"] = "exit %d" % d1.returncode
        result["demo_output_with_change"] = (d1.stdout + d1.stderr)[-600:]
        result["ran"].append("PYTHONPATH=<worktree> /venv/bin/python demo.py   (with and without the patch)")
        confirmed = d0.returncode == 0 and d1.returncode != 0 and "passed" in result.get("tests_with_change", "passed") \
            and "failed" not in result.get("tests_with_change", "")
        result["confirmed"] = bool(confirmed)
        checks = [c for c in (a.checks.split(",") if a.checks else [a.pid]) if c]
        result["checks"] = {}
        for c in checks:
            envc = dict(os.environ, PERSIM_VERIF_ROOT=wt, PV_REPLAY_DIR=os.path.join(base, "replays"))
            try:
                r = sh([os.path.join(VERIF, "check"), c, "--tier", a.tier, "--no-evidence"], env=envc, timeout=3600)
                lines = [l for l in r.stdout.splitlines() if l.strip()]
                sigs = [l.strip()[:300] for l in lines if l.startswith("  ")]
                result["checks"][c] = {"rc": r.returncode, "verdict": {0: "missed", 1: "caught", 2: "harness-error"}.get(r.returncode, "?"),
                                       "signatures": sigs[:6], "tier": a.tier}
            except subprocess.TimeoutExpired:
                result["checks"][c] = {"rc": None, "verdict": "timeout"}
            result["ran"].append("PERSIM_VERIF_ROOT=<worktree> ./check %s --tier %s --no-evidence" % (c, a.tier))
        out = os.path.join(VERIF, "seeded", "%s-%s%s" % (a.pid, a.x, os.environ.get("PV_SEED_SUFFIX", "")))
        os.makedirs(out, exist_ok=True)
        shutil.copy(patch, os.path.join(out, "patch.diff"))
        shutil.copy(demo, os.path.join(out, "demo.py"))
        json.dump(result, open(os.path.join(out, "meta.json"), "w"), indent=1)
        print(json.dumps({k: v for k, v in result.items() if k not in ("demo_output_with_change", "ran")}, indent=1))
        return 0
    finally:
        sh(["git", "-C", "/repo", "worktree", "remove", "--force", wt])
        shutil.rmtree(base, ignore_errors=True)


if __name__ == "__main__":
    sys.exit(main())
