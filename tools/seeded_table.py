#!/venv/bin/python
"""Print a markdown table of the seeded changes and which checks caught them (from seeded/*/meta.json)."""
import glob
import json
import os

V = os.path.dirname(os.path.dirname(os.path.abspath(__file__)))
rows = []
for d in sorted(glob.glob(os.path.join(V, "seeded", "*"))):
    mp = os.path.join(d, "meta.json")
    if not os.path.exists(mp):
        continue
    m = json.load(open(mp))
    caught = [c for c, v in m.get("checks", {}).items() if v.get("verdict") == "caught"]
    missed = [c for c, v in m.get("checks", {}).items() if v.get("verdict") not in ("caught",)]
    sig = ""
    own = m.get("checks", {}).get(m["property"], {})
    if own.get("signatures"):
        sig = own["signatures"][0].split(":")[0].strip()
    elif caught:
        sig = m["checks"][caught[0]]["signatures"][0].split(":")[0].strip() if m["checks"][caught[0]].get("signatures") else ""
    summary = (m.get("summary") or "").replace("|", "/").replace("\n", " ")
    needs = (m.get("needs") or "").replace("|", "/").replace("\n", " ")
    rows.append((os.path.basename(d), m.get("confirmed"), ", ".join(caught) or "-", ", ".join(missed) or "-", sig, summary[:170], needs[:150]))
print("| seeded change | confirmed | caught by (quick tier) | not caught by | first signature | what was changed | needs |")
print("|---|---|---|---|---|---|---|")
for r in rows:
    print("| %s | %s | %s | %s | `%s` | %s | %s |" % r)
n = len(rows)
own_caught = 0
for d in sorted(glob.glob(os.path.join(V, "seeded", "*"))):
    mp = os.path.join(d, "meta.json")
    if os.path.exists(mp):
        m = json.load(open(mp))
        if any(v.get("verdict") == "caught" for v in m.get("checks", {}).values()):
            own_caught += 1
print("\n%d seeded changes, %d caught by at least one registered check" % (n, own_caught))
