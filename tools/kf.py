#!/venv/bin/python
"""Maintain known_findings.json by hand (never called by a check):
    tools/kf.py fixed <ID> <commit> "<what failed>" <replay path> [<replay path> ...]"""
import json, os, sys
V = os.path.dirname(os.path.dirname(os.path.abspath(__file__)))
p = os.path.join(V, "known_findings.json")
kf = json.load(open(p))
if sys.argv[1] == "fixed":
    pid, commit, what = sys.argv[2:5]
    kf["fixed"].append({"property": pid, "commit": commit,
                        "line": "fixed: property=%s %s %s" % (pid, commit, what), "replay": sys.argv[5:]})
json.dump(kf, open(p, "w"), indent=1)
print("ok", len(kf["open"]), "open", len(kf["fixed"]), "fixed")
