#!/venv/bin/python
"""Sensitivity helper: run a property's check against a deliberately broken scratch copy.

    tools/mutate.py <ID> <relative file> <old text> <new text> [--tier quick] [--tests]
    tools/mutate.py <ID> --patch file.diff [--tests]

The scratch copy lives under /tmp/pv-scratch-<pid> and is removed afterwards.
/repo and /verif/evidence, /verif/replays are never touched."""
import argparse
import os
import shutil
import subprocess
import sys
import tempfile

VERIF = os.path.dirname(os.path.dirname(os.path.abspath(__file__)))


def main():
    ap = argparse.ArgumentParser()
    ap.add_argument("pid")
    ap.add_argument("file", nargs="?")
    ap.add_argument("old", nargs="?")
    ap.add_argument("new", nargs="?")
    ap.add_argument("--patch")
    ap.add_argument("--tier", default="quick")
    ap.add_argument("--tests", action="store_true", help="also run the repository's test suite on the mutant")
    ap.add_argument("--count", type=int, default=1, help="how many occurrences must be replaced")
    ap.add_argument("--clauses", default="")
    a = ap.parse_args()
    scratch = tempfile.mkdtemp(prefix="pv-scratch-")
    try:
        root = os.path.join(scratch, "repo")
        shutil.copytree("/repo", root, ignore=shutil.ignore_patterns(".git", "__pycache__", "docs", "*.egg-info"))
        if a.patch:
            r = subprocess.run(["patch", "-p1", "-i", os.path.abspath(a.patch)], cwd=root, capture_output=True, text=True)
            if r.returncode:
                print("patch failed:", r.stdout, r.stderr)
                return 3
        else:
            p = os.path.join(root, a.file)
            s = open(p).read()
            if s.count(a.old) < 1:
                print("old text not found")
                return 3
            s = s.replace(a.old, a.new, a.count)
            open(p, "w").write(s)
        env = dict(os.environ, PERSIM_VERIF_ROOT=root, PV_REPLAY_DIR=os.path.join(scratch, "replays"))
        if a.tests:
            t = subprocess.run(["/venv/bin/python", "-m", "pytest", "-q", "-x", "-p", "no:cacheprovider", "test"],
                               cwd=root, env=dict(env, PYTHONPATH=root), capture_output=True, text=True)
            print("tests:", t.stdout.strip().splitlines()[-1] if t.stdout.strip() else t.stderr[-300:])
        cmd = [os.path.join(VERIF, "check"), a.pid, "--tier", a.tier, "--no-evidence"]
        if a.clauses:
            cmd += ["--clauses", a.clauses]
        r = subprocess.run(cmd, env=env, capture_output=True, text=True)
        out = r.stdout.strip().splitlines()
        print("\n".join(out[-12:]))
        print("rc=%d -> %s" % (r.returncode, {0: "SURVIVED", 1: "KILLED", 2: "HARNESS-ERROR"}.get(r.returncode, "?")))
        return 0
    finally:
        shutil.rmtree(scratch, ignore_errors=True)


if __name__ == "__main__":
    sys.exit(main())
