"""One shard: a fresh process that runs every clause of one property.

usage: python -m pv.worker <ID> <tier> <verif_seed> <shard> <nshards> <out.json> [clause,clause...]
"""
import json
import os
import sys
import time
import traceback
import warnings

from . import deps

deps.add_path()
os.environ.setdefault("PERSIM_VERIF", "1")

ROOT = os.environ.get("PERSIM_VERIF_ROOT", "/repo")
# sensitivity tooling only (tools/automutate.py): stop a shard at its first recorded failure; never set by a registered check
FAIL_FAST = bool(os.environ.get("PV_FAIL_FAST"))


_OPEN_SIGS = None


def _real_failures(st):
    """failures that do not match an open known finding (fail-fast mode of the sensitivity tooling only)"""
    global _OPEN_SIGS
    if _OPEN_SIGS is None:
        try:
            with open(os.path.join(os.path.dirname(os.path.dirname(os.path.abspath(__file__))), "known_findings.json")) as fh:
                _OPEN_SIGS = [f["signature"] for f in json.load(fh)["open"]]
        except Exception:  # noqa: BLE001
            _OPEN_SIGS = []
    for sig in st.failures:
        if not any((pat.startswith("*/") and sig.split("/", 1)[-1] == pat[2:]) or sig == pat for pat in _OPEN_SIGS):
            return True
    return False


def load_persim():
    """Import persim from the working tree under test and assert where it came from."""
    root = os.path.realpath(ROOT)
    if root not in sys.path:
        sys.path.insert(0, root)
    os.environ.setdefault("MPLBACKEND", "Agg")
    with warnings.catch_warnings():
        warnings.simplefilter("ignore")
        import persim  # noqa: F401
    pf = os.path.realpath(persim.__file__)
    if not pf.startswith(root + os.sep):
        raise RuntimeError("persim imported from %s, expected under %s" % (pf, root))
    return persim


def load_property(pid):
    import importlib
    load_persim()
    mod = importlib.import_module("pv.props.%s" % pid.lower())
    return mod


class ClauseStats:
    MAX_SAMPLES = 3
    MAX_FAIL_CASES = 3

    def __init__(self, name):
        self.name = name
        self.evals = 0
        self.hashes = set()
        self.labels = {}
        self.samples = []
        self.failures = {}
        self.skips = {}
        self.wall = 0.0
        self.budget_exhausted = False
        self.exhaustive_total = None
        self.values = {}
        self.timeouts = 0

    def add(self, case, res):
        from .core import case_hash
        self.evals += 1
        for lab in res["labels"]:
            self.labels[lab] = self.labels.get(lab, 0) + 1
        if res.get("value") is not None and res["outcome"] == "ok":
            self.values[case_hash(case)] = [res["value"], case]
        if res["outcome"] == "skip":
            self.skips[res["skip"]] = self.skips.get(res["skip"], 0) + 1
            return
        if res["nontrivial"]:
            h = case_hash(case)
            if h not in self.hashes:
                self.hashes.add(h)
                if len(self.samples) < self.MAX_SAMPLES:
                    s = json.dumps(case)
                    if len(s) <= 1500:
                        self.samples.append(case)
        if res["outcome"] == "violation":
            if "no_result_within" in res["sig"]:
                self.timeouts += 1
            f = self.failures.setdefault(res["sig"], {"count": 0, "msg": res["msg"], "cases": []})
            f["count"] += 1
            f["cases"].append(case)
            f["cases"].sort(key=lambda c: len(json.dumps(c)))
            del f["cases"][self.MAX_FAIL_CASES:]
            if f["cases"][0] is case:
                f["msg"] = res["msg"]

    def to_json(self):
        return {
            "evals": self.evals, "hashes": sorted(self.hashes), "labels": self.labels,
            "samples": self.samples, "failures": self.failures, "skips": self.skips,
            "wall": round(self.wall, 3), "budget_exhausted": self.budget_exhausted,
            "exhaustive_total": self.exhaustive_total, "values": self.values,
        }


def run_clause(clause, n, seed, shard, nshards, wall_cap):
    from hypothesis import HealthCheck, Phase, given, settings
    from hypothesis import seed as hseed
    from .core import run_case

    st = ClauseStats(clause.name)
    t0 = time.time()

    if clause.exhaustive:
        total = 0
        for idx, case in enumerate(clause.cases()):
            total += 1
            if idx % nshards != shard:
                continue
            if st.timeouts >= 2 or (FAIL_FAST and _real_failures(st)):
                st.budget_exhausted = True
                continue
            st.add(case, run_case(clause, case))
        st.exhaustive_total = total
        st.wall = time.time() - t0
        return st

    if n <= 0:
        return st

    if clause.machine is not None:
        from hypothesis.stateful import run_state_machine_as_test

        def record(case):
            if time.time() - t0 > wall_cap or st.timeouts >= 2 or (FAIL_FAST and _real_failures(st)):
                st.budget_exhausted = True
                return
            st.add(case, run_case(clause, case))

        Machine = clause.machine(record)
        run_state_machine_as_test(
            hseed(seed)(Machine),
            settings=settings(max_examples=n, stateful_step_count=clause.machine_steps, database=None, deadline=None, derandomize=False,
                              report_multiple_bugs=False, phases=[Phase.generate], suppress_health_check=list(HealthCheck)))
        st.wall = time.time() - t0
        return st

    @hseed(seed)
    @settings(max_examples=n, database=None, deadline=None, derandomize=False,
              report_multiple_bugs=False, phases=[Phase.generate],
              suppress_health_check=[HealthCheck.too_slow, HealthCheck.data_too_large,
                                     HealthCheck.large_base_example])
    @given(clause.strategy)
    def test(case):
        if time.time() - t0 > wall_cap or st.timeouts >= 2 or (FAIL_FAST and _real_failures(st)):
            st.budget_exhausted = True
            return
        st.add(case, run_case(clause, case))

    test()
    st.wall = time.time() - t0
    return st


def main(argv):
    pid, tier, vseed, shard, nshards, out = argv[:6]
    only = set(argv[6].split(",")) if len(argv) > 6 and argv[6] else None
    shard = int(shard)
    nshards = int(nshards)
    result = {"shard": shard, "hashseed": os.environ.get("PYTHONHASHSEED"), "ambient": os.environ.get("PV_AMBIENT", "default"), "clauses": {}, "error": None}
    os.environ["PV_TIER"] = tier
    try:
        from .core import derive_seed
        mod = load_property(pid)
        wall_cap = float(os.environ.get("PV_CLAUSE_WALL_CAP", "600" if tier == "quick" else "3600"))
        for clause in mod.CLAUSES:
            if only and clause.name not in only:
                continue
            if clause.thorough_only and tier != "thorough":
                continue
            total = clause.budget(tier)
            if tier == "thorough" and not clause.cross_shard:
                # the per-clause thorough figures are the planning numbers of DESIGN section 8; the thorough tier multiplies them
                total *= int(os.environ.get("PV_THOROUGH_SCALE", getattr(mod, "THOROUGH_SCALE", 3)))
            if os.environ.get("PV_BUDGET_SCALE"):      # sensitivity tooling only (tools/automutate.py first pass); never set by a registered check
                total = int(total * float(os.environ["PV_BUDGET_SCALE"]))
            n = -(-total // nshards) if total > 0 else 0
            seed = derive_seed(vseed, pid, clause.name, 0 if clause.cross_shard else shard)
            if clause.cross_shard:
                n = total
            with warnings.catch_warnings():
                warnings.simplefilter("ignore")
                st = run_clause(clause, n, seed, shard, nshards, wall_cap)
            result["clauses"][clause.name] = st.to_json()
            if FAIL_FAST and _real_failures(st):
                break
    except BaseException as e:  # harness error (generator / oracle / health check)
        result["error"] = "%s: %s\n%s" % (type(e).__name__, e, traceback.format_exc()[-3000:])
    with open(out, "w") as fh:
        json.dump(result, fh)
    return 0 if result["error"] is None else 2


if __name__ == "__main__":
    sys.exit(main(sys.argv[1:]))
