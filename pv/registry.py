"""Per-property registration data used to generate MANIFEST.json."""

HOOK_COMMITS = []

_NOTE = ("Trusted base: CPython/numpy/scipy float64 semantics, Hypothesis' generators, and the reference oracles in pv/oracles "
         "(each self-checked against a brute-force definition inside the run where one exists). Absence of violations is "
         "relative to the explored set reported in the evidence file. Half of the 16 shard processes run under np.errstate(all='ignore'), half under NumPy's default. ")

REGISTRY = {
    "C16": {
        "level": "Generated barcodes (lattice ties / ulp-perturbed / arbitrary floats, 1..40 bars, lists, infinite bars, all flag "
                 "combinations) are compared with a direct evaluation of the Shannon formula, plus exact metamorphic invariances and "
                 "the two documented rejections. The function is a dozen lines with no data-dependent branches beyond the flags, so "
                 "tens of thousands of generated cases per run explore it thoroughly; exploration is the right level because the "
                 "claim is over all real inputs and no finite enumeration exists.",
        "technique": "property-based testing (Hypothesis) against a formula oracle + metamorphic relations",
        "note": _NOTE + "n=1 with normalize (0/0) is outside the statement.",
    },
}

REGISTRY.update({
    "C01": {
        "level": "Every generated pair of diagrams is judged against the definition itself (minimum over all partial matchings, brute force, <= 5 points "
                 "per diagram), an independent reference algorithm (threshold search + one-sided scipy matchings, self-checked against the brute force) up "
                 "to 30 points, and complete finite slices (all 23409 ordered pairs of <= 2-point multisets on a 16-point lattice, all 4 x 8281 pairs of <= 1-point diagrams on decimal lattices; in the thorough tier all 48400 pairs of <= 3-point multisets on a 9-point lattice). Generators are aimed "
                 "at exact ties, one-ulp and 1e-4..1e-12 near-ties, nearly identical diagrams, duplicates, diagonal points, every empty form, float64 / nested-list / narrowest-integer input and 15 decimal scales (1e-12..1e9); each of the 16 shard processes runs under its own "
                 "PYTHONHASHSEED and one clause feeds identical cases to all 16. Exploration is the right level: optimality over all inputs has no finite "
                 "certificate, but on each explored input the verdict is exact.",
        "technique": "property-based testing (Hypothesis) against brute-force definition + differential reference; exhaustive enumeration of a small lattice slice",
        "note": _NOTE + "Hash seeds 0..15 only. A defect that needs > 30 points is only reachable through C07's differential clause.",
    },
    "C02": {
        "level": "Same design as C01 with Euclidean / (d-b)/sqrt2 costs: brute-force minimum over all partial matchings (<= 5 points, 6 in the thorough tier), independent assignment reference (own Kuhn-Munkres on the reduced-gain matrix) up to "
                 "40 points self-checked against the brute force, exhaustive 23409-pair lattice slice, infinite-death handling with warning attribution; where the optimum is isolated by construction (a permuted copy moved by <= 3e-6 lattice units) the value is demanded to relative accuracy 1e-9.",
        "technique": "property-based testing (Hypothesis) against brute-force definition + independent-assignment differential reference; exhaustive enumeration of a small lattice slice",
        "note": _NOTE + "Comparison tolerance 1e-9 * sum |coordinates|, except in the isolated-optimum clause (1e-9 of the distance itself).",
    },
    "C06": {
        "level": "A validity predicate (not a fixed expected matching) is evaluated on every matching returned for generated pairs of 0..8 points under 16 hash "
                 "seeds: index coverage, -1 conventions, per-row cost recomputed from the input points, max/sum equals the reported distance, the distance "
                 "equals the one returned without the flag and (when enumerable) the brute-force optimum.",
        "technique": "property-based testing (Hypothesis) with a certificate-validity predicate + brute-force optimum",
        "note": _NOTE + "Finite diagrams only, as the statement says.",
    },
    "C07": {
        "level": "Metamorphic laws (zero on reorderings, symmetry, non-negativity, triangle inequality, diagonal-point / translation / scaling invariance, "
                 "closed forms against the empty diagram, d_B <= d_W) on diagrams of up to 60 (quick) / 200 (thorough) points, plus a differential value "
                 "oracle (independent bottleneck reference, independent Wasserstein reference) at sizes brute force cannot reach, incl. a deterministic non-Hypothesis slice of 475..700-point pairs and chain-structured diagrams of 300..520 (thorough: 800) points each whose feasibility graph is a single path. Exploration: the laws quantify over all "
                 "triples; no finite slice is complete.",
        "technique": "property-based testing (Hypothesis): metamorphic relations + differential reference at size",
        "note": _NOTE + "Sizes bounded by the cost of persim's pure-Python bottleneck.",
    },
})

REGISTRY.update({
    "C14": {
        "level": "Generated pairs/triples (0..10 points, sigma commensurate with the data over 7 decades) are compared with a float64 transcription of the "
                 "kernel formula on squared distances, with dedicated generators for the delicate cases the statement names (reordered copies, copies "
                 "perturbed by 1e-3..1e-15) and exact-arithmetic generators for diagonal-point and translation invariance; the Wasserstein stability bound "
                 "is checked against an independent assignment reference and against persim.wasserstein. Exploration: all clauses quantify over real-valued inputs.",
        "technique": "property-based testing (Hypothesis): formula oracle on squares + metamorphic relations + stability inequality against an independent assignment reference",
        "note": _NOTE + "Sizes <= 10 points because the implementation is an O(mn) Python loop.",
    },
    "C15": {
        "level": "Generated pairs/triples with coordinates of either sign are compared with a float64 transcription of the averaged 1-D transport cost "
                 "(tolerance 1e-11 of the coordinate sum since the single-precision direction vectors of the pinned release were repaired), plus symmetry, zero on reorderings, triangle inequality, diagonal points, "
                 "diagonal translation into negative coordinates, scaling and SW <= 2 W1 against an independent assignment reference.",
        "technique": "property-based testing (Hypothesis): formula oracle + metamorphic relations + inequality against an independent assignment reference",
        "note": _NOTE + "Tolerance 1e-11 * sum|coordinates| (5e-6 before the float32 direction vectors were repaired, DESIGN 9.3).",
    },
})

REGISTRY.update({
    "C13": {
        "level": "Generated covariances aimed at the algorithm's branch thresholds (each of the four quadrature regimes >= 10 % of cases, >= 5 % within 1e-3 "
                 "of a threshold, |r| up to 1-1e-9) and evaluation points out to 10^4 sd are judged against an adaptive-quadrature evaluation of "
                 "Plackett's integral (two forms, cross-checked by 30-digit mpmath on a subsample): accuracy 1e-7, range, monotonicity on generated "
                 "grids, rectangle masses, tail limits, product form, norm_cdf and the uniform box CDF. Exploration: real-valued parameters, no finite slice.",
        "technique": "property-based testing (Hypothesis) against an independent quadrature reference (differential) + CDF shape laws",
        "note": _NOTE + "numpy/scipy C code gives no coverage gradient, so no coverage-guided stage; generators target the documented thresholds instead.",
    },
})

REGISTRY.update({
    "C04": {
        "level": "Every pixel of images produced through the public API (all kernel classes incl. all four correlation regimes, all weight classes, points "
                 "inside / on borders / on pixel corners / outside, both input forms) is compared with an independently integrated kernel mass of the "
                 "pixel square located from the public ranges; a second clause pins the (birth, persistence) axis convention on non-square grids; a third feeds integer-valued diagrams as uint8 / int16 / int64 arrays and int lists, integer weight exponents and the scalar variance as Python / NumPy scalar types.",
        "technique": "property-based testing (Hypothesis) against an independent numerical-integration reference (differential)",
        "note": _NOTE + "Resolution <= 8x8 and |r| <= 0.99 are cost bounds of the reference quadrature; grids are exact multiples so that C12's concern stays separate.",
    },
    "C11": {
        "level": "Metamorphic relations between runs on generated configurations and collections: additivity, permutation invariance, zero-weight points, "
                 "empty diagrams, single-vs-collection, serial-vs-parallel for n_jobs in {1,2,3,4,-1}, birth-death vs pre-converted input, pixel sign and total mass.",
        "technique": "property-based testing (Hypothesis): metamorphic / differential relations between call styles",
        "note": _NOTE + "loky scheduling is not controllable: agreement is established for every n_jobs value and collection shape tried, and rests on the per-diagram function being pure (C19).",
    },
    "C12": {
        "level": "Model-based histories: constructor arguments plus up to 20 generated operations (range / pixel-size assignments, fits) are interpreted "
                 "against the real object; a geometry invariant observable through the public API is evaluated after construction and after every "
                 "operation and a containment / at-most-one-pixel post-condition after the operation it concerns; an exhaustive table of awkward "
                 "decimals x multipliers covers the constructor and each setter. Exploration over histories is the right level: the state space "
                 "(real-valued ranges) is infinite, but inexact quotients are reached by construction in > 30 % of histories.",
        "technique": "model-based / stateful property testing (generated operation histories and a Hypothesis RuleBasedStateMachine with state-dependent rule arguments; invariant after every step) + exhaustive decimal table",
        "note": _NOTE + "Fits mix integer arrays / nested int lists with float diagrams. Resolution kept <= 200 per axis (cost bound); histories are JSON op lists interpreted step by step so that the replay file is the history itself; the RuleBasedStateMachine clause records its run in the same format.",
    },
})

HOOK_COMMITS.append("fe000e8")

REGISTRY.update({
    "C03": {
        "level": "For every generated diagram (1..14 bars; lattice ties, touching / nested / overlapping bars, residual collisions, ulp-perturbed and float "
                 "coordinates, 13 scales, any input order, trailing infinite bar, hom_deg) the returned piecewise-linear functions are compared with the "
                 "k-th-largest-tent definition on a finite set that decides equality everywhere (all candidate breakpoints, returned abscissae, midpoints, "
                 "outside points), together with well-formedness (ordered abscissae, vanishing ends, depth count). Disagreements are attributed to the one "
                 "listed open finding only when the guarded hook reports that the repeated-bar shortcut fired; anything else is a violation. Integer-valued bars are also given as the narrowest integer array that holds them (uint8 ... int32), int64 arrays and nested int lists; 40..120-bar diagrams are judged by a vectorised form of the same oracle.",
        "technique": "property-based testing (Hypothesis) against the mathematical definition, decided exactly per input; hook-based attribution of a known finding",
        "note": _NOTE + "A different defect that only shows on inputs where the shortcut also fires would be attributed to the known finding (stated limit).",
    },
    "C08": {
        "level": "Generated diagrams and covering grids (2..200 steps; tight / padded / default; endpoints on, off and half-way between nodes; infinite bars): "
                 "every sampled value is compared with the true landscape (half-step bound, exact on-grid), vectorize with the interpolated exact landscape "
                 "and the true one, the transformer with the approximate class element by element, the death vector by multiset + order.",
        "technique": "property-based testing (Hypothesis) against the mathematical definition with the stated error bound; differential between the two classes",
        "note": _NOTE + "The snapping rule itself is not prescribed (only the bound); agreement with a snapped-bar model is reported as a label, not required.",
    },
    "C09": {
        "level": "Model-based histories over a pool of shared operands: every operation is mirrored in an independent pointwise model (expression tree over "
                 "leaf functions for exact landscapes, sample arrays for grid landscapes); after every step every pool entry - operands and results alike - "
                 "is compared with its model (exactly, on all breakpoints + midpoints for exact landscapes) and with a deep snapshot taken at creation; "
                 "re-sampling is checked against a hand-written linear interpolation, combinations against the combination of re-sampled values; the "
                 "documented rejections (division by zero, mismatched degree / grid) must raise ValueError. Leaves include lazily computed landscapes, integer-typed sample arrays and diagram landscapes whose depths share list objects (repeated bars).",
        "technique": "model-based / stateful property testing (generated operation histories, invariant after every step) + stateless pair clause",
        "note": _NOTE + "Histories are JSON op lists interpreted step by step (replay file = the history). Pool capped at 15 entries per history.",
    },
    "C10": {
        "level": "Norms of generated landscapes (sign changes at and between breakpoints, flat and nearly flat segments, differences of diagram landscapes, "
                 "grid landscapes) are compared with a closed-form reference integral self-checked against adaptive quadrature; result must be a finite "
                 "real; homogeneity, (reverse) triangle inequality, ||P-P|| = 0 and the sup-norm stability bound against an independent bottleneck reference; integer-typed critical pairs / int64 samples with heights up to 70000; multiples of diagram landscapes with repeated bars.",
        "technique": "property-based testing (Hypothesis) against a reference integral (differential) + norm laws (metamorphic) + stability inequality",
        "note": _NOTE + "Ordinates below 1e-3 in magnitude and abscissa spacings below 1e-6 are not generated (underflow / overflow of y**(p+1) and slopes is outside the statement).",
    },
})

REGISTRY.update({
    "C05": {
        "level": "Generated pairs of connected graphs (1..12 vertices incl. extremal trees and locally edited copies, all labelings, generated RNG seed and sampling-size parameter) are judged against the "
                 "exact mGH distance computed by branch and bound over all maps in both directions on independently computed shortest-path metrics; one "
                 "complete slice (all 44x44 pairs of connected labelled graphs on <= 4 vertices x 3 seeds, oracle cross-checked by brute force); validity "
                 "predicates at 13..18 vertices and on 60..260-vertex graphs (random families plus a deterministic slice at the int8 / int16 boundaries of distances and counts); isomorphic pairs must get lower bound 0.",
        "technique": "property-based testing (Hypothesis) against an exact branch-and-bound oracle; exhaustive enumeration of small graphs; validity predicates at size",
        "note": _NOTE + "The NumPy RNG state is an input set by the harness (np.random.seed) immediately before each call.",
    },
    "C17": {
        "level": "The same generated graphs are passed in twelve container / sparsity / memory-layout formats (nested list, dense C-ordered, Fortran-ordered, strided view, bool, float, read-only, csr / csc / coo / lil matrices, csr_array) x {upper-triangular, symmetric, edges in either triangle}, relabelled, as mixed-format "
                 "collections and with 2..3 connected components; results must bracket the exact distance (of a largest component when disconnected, with "
                 "a warning and no exception), lower bounds must coincide across representations, collection matrices must be symmetric with zero diagonal.",
        "technique": "property-based testing (Hypothesis): differential across representations + exact branch-and-bound oracle",
        "note": _NOTE + "Integer 0/1 adjacency entries only; ties between largest components accept any of them.",
    },
    "C18": {
        "level": "Model-based histories of fit / transform / fit_transform calls on data of different extent for both estimators, against a model that "
                 "remembers only user-fixed parameters and the most recent fit: learned state after each fit, outputs of each transform (exactly, on the "
                 "grid the model predicts), repeatability, state preservation, element-wise collections, fit_transform == fit;transform.",
        "technique": "model-based / stateful property testing (generated call histories and a Hypothesis RuleBasedStateMachine, both judged against a reference model)",
        "note": _NOTE + "User-fixed parameters are those given to the constructor or assigned afterwards (attribute assignment / set_params between fits and transforms, values off the data lattice so that they cannot coincide with a learned bound).",
    },
})

REGISTRY.update({
    "C19": {
        "level": "Model-based call histories over a pool of shared inputs: 19 diagram entry points and the two mGH call styles are invoked in generated "
                 "order; every pooled argument is compared byte-for-byte with a snapshot after every call, earlier calls are re-issued after arbitrary "
                 "other calls and must give bit-identical results (mGH under the same NumPy seed), and every call is repeated on equal-valued inputs in "
                 "each other accepted form (float64 array C-ordered / Fortran-ordered / strided view / read-only, int64, int16, uint8 arrays, nested list); float32 arrays and a diagram with infinite deaths are exercised for purity and repeatability; calls on INVALID input (NaN, wrong shape, a bar born after dying, None) are sandwiched between two identical valid calls that must agree bitwise.",
        "technique": "model-based / stateful property testing (generated call histories; snapshot invariant after every step; repeat and representation-swap rules)",
        "note": _NOTE + "Coverage of 'every public entry point' is the table in pv/props/c19.py; the slow 3-D plot_landscape is not included.",
    },
    "C20": {
        "level": "Artists are read back from Agg figures for generated diagrams, option combinations and target axes (current or explicitly not current): "
                 "scatter offsets vs float32 data, infinity line placement, limits, labels, title, legend; for matching plots the multiset of segments on "
                 "the given axes vs the rows of the matching returned by the distance function (diagrams with and without infinite deaths), nothing on other axes, distinct style of the bottleneck "
                 "row; 2-D landscape plots line by line.",
        "technique": "property-based testing (Hypothesis) with artist inspection of rendered figures (explicit expected-artist oracle)",
        "note": _NOTE + "Diagrams whose extent is below float32 resolution are excluded; the 3-D plot_landscape is not inspected.",
    },
})
