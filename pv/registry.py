"""Per-property registration data used to generate MANIFEST.json."""

HOOK_COMMITS = []

_NOTE = ("Trusted base: CPython/numpy/scipy float64 semantics, Hypothesis' generators, and the reference oracles in pv/oracles "
         "(each self-checked against a brute-force definition inside the run where one exists). Absence of violations is "
         "relative to the explored set reported in the evidence file. ")

REGISTRY = {
    "C16": {
        "level": "Generated barcodes (lattice ties / ulp-perturbed / arbitrary floats, 1..40 bars, lists, infinite bars, all flag "
                 "combinations) are compared with a direct evaluation of the Shannon formula, plus exact metamorphic invariances and "
                 "the two documented rejections. The function is a dozen lines with no data-dependent branches beyond the flags, so "
                 "tens of thousands of generated cases per run explore it thoroughly; exploration is the right level because the "
                 "claim is over all real inputs and no finite enumeration exists.",
        "technique": "property-based testing (Hypothesis) against a formula oracle + metamorphic relations",
        "note": _NOTE + "n=1 with normalize (0/0) is outside the statement.",
    },
}
