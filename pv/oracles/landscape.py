"""Landscape definition and piecewise-linear helpers (no persim import)."""
import bisect
import math


def tent(b, d, t):
    return max(0.0, min(t - b, d - t))


def values_at(bars, t):
    """all tent values at t, largest first (the k-th entry is lambda_k(t), k = 0, 1, ...)"""
    return sorted((tent(b, d, t) for b, d in bars), reverse=True)


def true_value(bars, k, t):
    v = values_at(bars, t)
    return v[k] if k < len(v) else 0.0


def breakpoint_candidates(bars):
    """every true landscape function is linear between consecutive candidates: tents are linear there
    and can only swap rank where two of them cross, which is at some (b_i + d_j) / 2"""
    c = set()
    for b, d in bars:
        c.add(b)
        c.add(d)
    for b, _ in bars:
        for _, d in bars:
            c.add((b + d) / 2.0)
    return sorted(c)


def pl_eval(pairs, t):
    """linear interpolation of critical pairs, zero outside them"""
    if not pairs:
        return 0.0
    xs = [p[0] for p in pairs]
    if t < xs[0] or t > xs[-1]:
        return 0.0
    i = bisect.bisect_right(xs, t)
    if i == 0:
        return 0.0
    if i == len(xs):
        # t == last abscissa
        return float(pairs[-1][1])
    x0, y0 = pairs[i - 1]
    x1, y1 = pairs[i]
    if xs[i - 1] == t:
        # several pairs may share this abscissa; a well-formed function has equal ordinates there
        return float(y0)
    if x1 == x0:
        return float(y0)
    return float(y0 + (y1 - y0) * ((t - x0) / (x1 - x0)))


def eval_points(*point_sets):
    """union of the given abscissae + midpoints of consecutive elements + one point beyond each end"""
    pts = sorted({float(x) for s in point_sets for x in s if math.isfinite(x)})
    if not pts:
        return [0.0]
    out = set(pts)
    for a, b in zip(pts, pts[1:]):
        out.add((a + b) / 2.0)
    span = max(1.0, pts[-1] - pts[0])
    out.add(pts[0] - span)
    out.add(pts[-1] + span)
    return sorted(out)


def snap_index(x, start, stop, n):
    """index of the grid node nearest to x (first on ties, like argmin)"""
    import numpy as np
    grid = np.linspace(start, stop, n)
    return int(np.argmin(np.abs(grid - x)))


def approx_model(bars, start, stop, n):
    """grid landscape model: snap every endpoint to the nearest node, k-th largest tent of the snapped
    bars at the nodes, rising flank rounded down at odd widths (documented 'rounded down' midpoint).
    Returns a list of depth rows (possibly empty)."""
    import numpy as np
    grid, step = np.linspace(start, stop, n, retstep=True)
    W = [[] for _ in range(n)]
    for b, d in bars:
        ib = int(np.argmin(np.abs(grid - b)))
        idd = int(np.argmin(np.abs(grid - d)))
        mid = ib + (idd - ib) // 2
        for j in range(1, mid - ib + 1):
            W[ib + j].append(j * step)
        for j in range(1, idd - mid):
            W[idd - j].append(j * step)
    K = max((len(w) for w in W), default=0)
    rows = [[0.0] * n for _ in range(K)]
    for i, w in enumerate(W):
        for k, v in enumerate(sorted(w, reverse=True)):
            rows[k][i] = v
    return rows
