"""Direct float64 transcriptions of the formulas in the property statements (no persim import)."""
import math


def heat_kernel(F, G, sigma):
    """k_sigma(F,G) = 1/(8 pi sigma) * sum_{p in F, q in G} exp(-|p-q|^2/(8 sigma)) - exp(-|p-qbar|^2/(8 sigma))"""
    terms = []
    for pb, pd in F:
        for qb, qd in G:
            a = (pb - qb) ** 2 + (pd - qd) ** 2
            b = (pb - qd) ** 2 + (pd - qb) ** 2
            terms.append(math.exp(-a / (8 * sigma)) - math.exp(-b / (8 * sigma)))
    return math.fsum(terms) / (8 * math.pi * sigma)


def heat_sq(F, G, sigma):
    kff = heat_kernel(F, F, sigma)
    kgg = heat_kernel(G, G, sigma)
    kfg = heat_kernel(F, G, sigma)
    return kff + kgg - 2 * kfg, kff, kgg


def sliced_wasserstein(P1, P2, M):
    """mean over theta_i = (1/2 + i/M) pi, i = 0..M-1 of the 1-D transport cost between
    <theta, P1 u proj(P2)> and <theta, P2 u proj(P1)>, proj(b,d) = ((b+d)/2, (b+d)/2)."""
    proj1 = [((b + d) / 2.0, (b + d) / 2.0) for b, d in P1]
    proj2 = [((b + d) / 2.0, (b + d) / 2.0) for b, d in P2]
    total = []
    for i in range(M):
        th = (0.5 + i / float(M)) * math.pi
        c, s = math.cos(th), math.sin(th)
        v1 = sorted([c * b + s * d for b, d in P1] + [c * x + s * y for x, y in proj2])
        v2 = sorted([c * b + s * d for b, d in P2] + [c * x + s * y for x, y in proj1])
        total.append(math.fsum(abs(x - y) for x, y in zip(v1, v2)))
    return math.fsum(total) / M
