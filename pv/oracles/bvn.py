"""Reference bivariate normal CDF (no persim import).

ref(h, k, r) = P(X <= h, Y <= k) for standard normal X, Y with correlation r.
Two independent evaluations; a case where they differ by more than 1e-10 is
reported as inconclusive (None)."""
import math

import numpy as np
from scipy import integrate
from scipy.special import ndtr, log_ndtr


def plackett(h, k, r):
    """Phi2 = Phi(h)Phi(k) + 1/(2 pi) int_0^{asin r} exp(-(h^2+k^2-2hk sin t)/(2 cos^2 t)) dt"""
    if not (math.isfinite(h) and math.isfinite(k)):
        raise ValueError
    a = math.asin(r)

    def f(t):
        c = math.cos(t)
        e = -(h * h + k * k - 2 * h * k * math.sin(t)) / (2 * c * c)
        return math.exp(e) if e > -745 else 0.0

    # the integrand can be sharply peaked near |t| -> asin r; give quad a few hints
    pts = sorted({a * x for x in (0.5, 0.9, 0.99, 0.999, 0.9999)})
    val, err = integrate.quad(f, 0.0, a, epsabs=1e-15, epsrel=1e-13, limit=400, points=pts)
    return float(ndtr(h) * ndtr(k) + val / (2 * math.pi)), err / (2 * math.pi)


def conditional(h, k, r):
    """int_{-inf}^{h} phi(x) Phi((k - r x)/sqrt(1-r^2)) dx on a finite window."""
    s = math.sqrt((1 - r) * (1 + r))
    lo = max(-40.0, min(h, 0.0) - 40.0)
    if h <= lo:
        return 0.0, 0.0

    def f(x):
        return math.exp(-0.5 * x * x) / math.sqrt(2 * math.pi) * float(ndtr((k - r * x) / s))

    # break points: mode of phi, the transition of the inner Phi
    cand = [0.0]
    if r != 0:
        x0 = k / r
        cand += [x0, x0 - 8 * s / abs(r), x0 + 8 * s / abs(r)]
    pts = sorted({p for p in cand if lo < p < h})
    val, err = integrate.quad(f, lo, h, epsabs=1e-15, epsrel=1e-13, limit=400, points=pts or None)
    return float(val), err


def ref(h, k, r, tol=1e-10):
    """-> (value, spread) or (None, spread) when the two evaluations disagree by more than tol."""
    # exact limits for far arguments (beyond +-38 sd the univariate tail is < 1e-300)
    if h <= -38.5 or k <= -38.5:
        return 0.0, 0.0
    if h >= 38.5 and k >= 38.5:
        return 1.0, 0.0
    if h >= 38.5:
        return float(ndtr(k)), 0.0
    if k >= 38.5:
        return float(ndtr(h)), 0.0
    v1, e1 = plackett(h, k, r)
    v2, e2 = conditional(h, k, r)
    spread = abs(v1 - v2)
    if spread > tol or e1 > tol or e2 > tol:
        return None, spread
    return 0.5 * (v1 + v2), spread


def mp_ref(h, k, r, digits=30):
    import mpmath as mp
    mp.mp.dps = digits
    h, k, r = mp.mpf(h), mp.mpf(k), mp.mpf(r)
    a = mp.asin(r)
    f = lambda t: mp.exp(-(h * h + k * k - 2 * h * k * mp.sin(t)) / (2 * mp.cos(t) ** 2))
    pts = [0] + [a * x for x in (0.5, 0.9, 0.99, 0.999)] + [a]
    val = mp.quad(f, pts)
    return float(mp.ncdf(h) * mp.ncdf(k) + val / (2 * mp.pi))
