"""Piecewise-linear function helpers: integrals of |f|^p, sup, evaluation (no persim import)."""
import math

import numpy as np

_GL_X, _GL_W = np.polynomial.legendre.leggauss(12)


def seg_integral_abs_p(x0, y0, x1, y1, p):
    """int_{x0}^{x1} |y0 + (y1-y0)(x-x0)/(x1-x0)|^p dx  (x1 >= x0)"""
    dx = x1 - x0
    if dx <= 0:
        return 0.0
    a0, a1 = abs(y0), abs(y1)
    if y0 == y1:
        return a0 ** p * dx
    crossing = (y0 < 0 < y1) or (y1 < 0 < y0)
    if crossing:
        # split at the root: two triangles in |f|
        return dx * (a0 ** (p + 1) + a1 ** (p + 1)) / ((p + 1) * (a0 + a1))
    hi, lo = max(a0, a1), min(a0, a1)
    if hi - lo < 1e-2 * hi:
        # nearly flat: the closed form cancels; |f|^p is smooth and nearly constant -> Gauss-Legendre is exact to rounding
        xm, xr = 0.5 * (x0 + x1), 0.5 * dx
        ys = a0 + (a1 - a0) * (0.5 * (_GL_X + 1.0))
        return float(xr * np.sum(_GL_W * ys ** p))
    return dx * (hi ** (p + 1) - lo ** (p + 1)) / ((p + 1) * (hi - lo))


def integral_abs_p(pairs, p):
    return math.fsum(seg_integral_abs_p(float(a[0]), float(a[1]), float(b[0]), float(b[1]), p) for a, b in zip(pairs, pairs[1:]))


def p_norm(depths, p):
    return math.fsum(integral_abs_p(d, p) for d in depths) ** (1.0 / p)


def sup_norm(depths):
    return max(abs(float(q[1])) for d in depths for q in d)


def quad_check(pairs, p):
    """independent numerical value of int |f|^p (scipy quad with the breakpoints and roots as break points)"""
    from scipy import integrate
    tot = 0.0
    for a, b in zip(pairs, pairs[1:]):
        x0, y0, x1, y1 = float(a[0]), float(a[1]), float(b[0]), float(b[1])
        if x1 <= x0:
            continue
        f = lambda x: abs(y0 + (y1 - y0) * (x - x0) / (x1 - x0)) ** p
        pts = None
        if (y0 < 0 < y1) or (y1 < 0 < y0):
            pts = [x0 + (x1 - x0) * (-y0) / (y1 - y0)]
        v, _ = integrate.quad(f, x0, x1, points=pts, epsabs=0, epsrel=1e-12, limit=200)
        tot += v
    return tot
