"""Exact modified Gromov-Hausdorff distance between small metric spaces (no persim import).

mGH(X, Y) = 1/2 * max( min_{f: X->Y} dis(f), min_{g: Y->X} dis(g) ),
dis(f) = max_{x,x'} | dX(x,x') - dY(f(x), f(x')) |."""
import itertools
from collections import deque


def bfs_distances(n, edges):
    """all-pairs shortest path lengths of a simple unweighted graph; inf = float('inf') if disconnected"""
    adj = [[] for _ in range(n)]
    for i, j in edges:
        if i != j:
            adj[i].append(j)
            adj[j].append(i)
    D = [[float("inf")] * n for _ in range(n)]
    for s in range(n):
        D[s][s] = 0
        q = deque([s])
        while q:
            u = q.popleft()
            for v in adj[u]:
                if D[s][v] == float("inf"):
                    D[s][v] = D[s][u] + 1
                    q.append(v)
    return D


def components(n, edges):
    D = bfs_distances(n, edges)
    seen, comps = set(), []
    for s in range(n):
        if s in seen:
            continue
        c = [v for v in range(n) if D[s][v] != float("inf")]
        seen.update(c)
        comps.append(c)
    return comps


def induced(n, edges, verts):
    idx = {v: i for i, v in enumerate(verts)}
    return len(verts), [[idx[i], idx[j]] for i, j in edges if i in idx and j in idx]


class Budget(Exception):
    """the exact search exceeded its node budget (the case is then not judged)"""


def min_distortion(DX, DY, upper=None, node_limit=60000):
    """min over all maps X -> Y of the distortion, by branch and bound (images chosen vertex by vertex)"""
    n, m = len(DX), len(DY)
    nodes = [0]
    if n == 0:
        return 0
    best = [upper if upper is not None else max(max(max(r) for r in DX), max(max(r) for r in DY)) + 1]
    img = [0] * n
    # order vertices of X by eccentricity (large distances first prune sooner)
    order = sorted(range(n), key=lambda v: -max(DX[v]))

    def rec(k, cur):
        if cur >= best[0]:
            return
        nodes[0] += 1
        if nodes[0] > node_limit:
            raise Budget()
        if k == n:
            best[0] = cur
            return
        x = order[k]
        for y in range(m):
            c = cur
            ok = True
            rowx = DX[x]
            rowy = DY[y]
            for t in range(k):
                xp = order[t]
                d = abs(rowx[xp] - rowy[img[xp]])
                if d > c:
                    c = d
                    if c >= best[0]:
                        ok = False
                        break
            if ok:
                img[x] = y
                rec(k + 1, c)

    rec(0, 0)
    return best[0]


def min_distortion_brute(DX, DY):
    n, m = len(DX), len(DY)
    best = None
    for f in itertools.product(range(m), repeat=n):
        d = 0
        for a in range(n):
            for b in range(a + 1, n):
                d = max(d, abs(DX[a][b] - DY[f[a]][f[b]]))
        best = d if best is None else min(best, d)
    return best or 0


def exact(DX, DY):
    return 0.5 * max(min_distortion(DX, DY), min_distortion(DY, DX))


def greedy_upper(DX, DY, rng, tries=20):
    """distortion of maps found by my own randomised greedy search (an upper bound of min distortion)"""
    import numpy as np
    X = np.asarray(DX, dtype=np.int64)
    Y = np.asarray(DY, dtype=np.int64)
    n, m = len(X), len(Y)
    best = None
    for _ in range(tries):
        order = list(range(n))
        rng.shuffle(order)
        xs, ys = [order[0]], [rng.randrange(m)]
        cur = 0
        for x in order[1:]:
            cost = np.max(np.abs(X[x, xs][None, :] - Y[:, ys]), axis=1)      # cost of sending x to each y
            cost = np.maximum(cost, cur)
            y = int(np.argmin(cost + np.array([rng.random() * 1e-9 for _ in range(1)])[0] * 0))
            cur = int(cost[y])
            xs.append(x)
            ys.append(y)
        best = cur if best is None else min(best, cur)
    return best or 0


def diameter(D):
    return max(max(r) for r in D)
