"""Reference oracles for bottleneck / Wasserstein distances (no import of persim).

brute(...)            the definition: minimum over *all* partial matchings
bottleneck_ref(...)   threshold search + two one-sided bipartite matchings (Mendelsohn-Dulmage)
wasserstein_ref(...)  reduced-gain assignment solved with an own Kuhn-Munkres implementation
"""
import math

import numpy as np
from scipy.sparse import csr_matrix
from scipy.sparse.csgraph import maximum_bipartite_matching

SQRT2 = math.sqrt(2.0)


def linf(p, q):
    return max(abs(p[0] - q[0]), abs(p[1] - q[1]))


def l2(p, q):
    return math.sqrt((p[0] - q[0]) ** 2 + (p[1] - q[1]) ** 2)


def diag_b(p):
    return 0.5 * (p[1] - p[0])


def diag_w(p):
    return (p[1] - p[0]) / SQRT2


def brute(A, B, kind):
    """Minimum over all partial matchings.  kind = 'b' (max of costs, L-inf, (d-b)/2)
    or 'w' (sum of costs, L2, (d-b)/sqrt 2).

    Returns (value, info) where info = {"mixed": some optimal matching uses both a cross
    pair and a diagonal pair, "n_opt_shapes": number of distinct (cross, diag) counts
    among optimal matchings, "count": matchings enumerated}."""
    pair = linf if kind == "b" else l2
    dg = diag_b if kind == "b" else diag_w
    m, n = len(A), len(B)
    C = [[pair(a, b) for b in B] for a in A]
    da = [dg(a) for a in A]
    db = [dg(b) for b in B]
    best = [math.inf]
    shapes = {}
    count = [0]
    used = [False] * n

    def agg(x, y):
        return max(x, y) if kind == "b" else x + y

    def rec(i, acc, ncross, ndiag):
        if i == m:
            val = acc
            nd = ndiag
            for j in range(n):
                if not used[j]:
                    val = agg(val, db[j])
                    nd += 1
            count[0] += 1
            if val < best[0]:
                best[0] = val
                shapes.clear()
            if val == best[0]:
                shapes[(ncross, nd)] = True
            return
        rec(i + 1, agg(acc, da[i]), ncross, ndiag + 1)
        for j in range(n):
            if not used[j]:
                used[j] = True
                rec(i + 1, agg(acc, C[i][j]), ncross + 1, ndiag)
                used[j] = False

    rec(0, 0.0, 0, 0)
    mixed = any(c > 0 and d > 0 for c, d in shapes)
    return best[0], {"mixed": mixed, "n_opt_shapes": len(shapes), "count": count[0]}


def n_matchings(m, n):
    return sum(math.comb(m, k) * math.comb(n, k) * math.factorial(k) for k in range(min(m, n) + 1))


def _covers(adj, must_rows):
    """Does the bipartite graph (rows x cols, boolean matrix) have a matching covering must_rows?"""
    rows = np.flatnonzero(must_rows)
    if rows.size == 0:
        return True
    sub = adj[rows]
    if sub.shape[1] == 0:
        return False
    g = csr_matrix(sub.astype(np.int8))
    match = maximum_bipartite_matching(g, perm_type="column")
    return bool(np.all(match >= 0))


def bottleneck_ref(A, B):
    """Smallest candidate t such that every point with diagonal cost > t can be matched
    across within t - on both sides (then a common matching exists, Mendelsohn-Dulmage)."""
    A = np.asarray(A, dtype=float).reshape(-1, 2)
    B = np.asarray(B, dtype=float).reshape(-1, 2)
    m, n = len(A), len(B)
    da = 0.5 * (A[:, 1] - A[:, 0])
    db = 0.5 * (B[:, 1] - B[:, 0])
    if m and n:
        C = np.maximum(np.abs(A[:, None, 0] - B[None, :, 0]), np.abs(A[:, None, 1] - B[None, :, 1]))
    else:
        C = np.zeros((m, n))
    cands = np.unique(np.concatenate([C.ravel(), da, db, [0.0]]))

    def feasible(t):
        adj = C <= t
        return _covers(adj, da > t) and _covers(adj.T, db > t)

    lo, hi = 0, len(cands) - 1   # feasible(cands[-1]) always holds: everything may go to the diagonal... or across
    # cands[-1] >= every diagonal cost or every cross cost; the largest candidate is always feasible
    while lo < hi:
        mid = (lo + hi) // 2
        if feasible(cands[mid]):
            hi = mid
        else:
            lo = mid + 1
    return float(cands[lo])


def hungarian_min(cost):
    """Minimum-sum perfect assignment of a square matrix (Kuhn-Munkres with potentials, O(n^3)); own implementation,
    exact up to floating-point rounding (unlike an LP solver, which stops at a 1e-7 optimality tolerance)."""
    n = cost.shape[0]
    INF = float("inf")
    u = np.zeros(n + 1)
    v = np.zeros(n + 1)
    p = np.zeros(n + 1, dtype=int)      # p[j] = row assigned to column j (1-based, 0 = none)
    way = np.zeros(n + 1, dtype=int)
    for i in range(1, n + 1):
        p[0] = i
        j0 = 0
        minv = np.full(n + 1, INF)
        used = np.zeros(n + 1, dtype=bool)
        while True:
            used[j0] = True
            i0 = p[j0]
            cur = cost[i0 - 1, :] - u[i0] - v[1:]
            free = ~used[1:]
            better = free & (cur < minv[1:])
            minv[1:][better] = cur[better]
            way[1:][better] = j0
            cand = np.where(free, minv[1:], INF)
            j1 = int(np.argmin(cand)) + 1
            delta = cand[j1 - 1]
            u[p[used]] += delta
            v[used] -= delta
            minv[1:][free] -= delta
            j0 = j1
            if p[j0] == 0:
                break
        while True:
            j1 = way[j0]
            p[j0] = p[j1]
            j0 = j1
            if j0 == 0:
                break
    rows = p[1:] - 1
    return float(sum(cost[rows[j], j] for j in range(n))), rows


def wasserstein_ref(A, B):
    """Sum of all diagonal costs plus the best total *gain* of pairing points across:
    W = sum da + sum db + min over partial matchings of sum (c_ij - da_i - db_j);
    solved as a k x k assignment (k = max(m, n)) with entries min(0, c_ij - da_i - db_j) and zero dummies -
    a different matrix and a different solver from the (M+N)^2 augmented Hungarian matrix in persim."""
    A = np.asarray(A, dtype=float).reshape(-1, 2)
    B = np.asarray(B, dtype=float).reshape(-1, 2)
    m, n = len(A), len(B)
    da = (A[:, 1] - A[:, 0]) / SQRT2
    db = (B[:, 1] - B[:, 0]) / SQRT2
    if m == 0 or n == 0:
        return float(da.sum() + db.sum())
    C = np.sqrt((A[:, None, 0] - B[None, :, 0]) ** 2 + (A[:, None, 1] - B[None, :, 1]) ** 2)
    k = max(m, n)
    G = np.zeros((k, k))
    G[:m, :n] = np.minimum(0.0, C - da[:, None] - db[None, :])
    _, rows = hungarian_min(G)
    paired_a = np.zeros(m, dtype=bool)
    paired_b = np.zeros(n, dtype=bool)
    total = 0.0
    for j in range(k):
        i = rows[j]
        if i < m and j < n and G[i, j] < 0:
            total += C[i, j]
            paired_a[i] = True
            paired_b[j] = True
    return float(total + da[~paired_a].sum() + db[~paired_b].sum())
