"""Orchestration: shards, seeds, verdict, evidence, exit code.

    ./check <ID> [--tier quick|thorough] [--replay FILE] [--shards N] [--clauses a,b]

exit 0  property held on everything explored (KNOWN-FINDING lines possible)
exit 1  + line "VIOLATION property=<ID> replay=<path>"
exit 2  harness error (generator / oracle / dependency problem) - never a verdict
"""
import argparse
import glob
import json
import os
import shutil
import subprocess
import sys
import time

from . import deps

deps.add_path()
os.environ.setdefault("PERSIM_VERIF", "1")

HERE = os.path.dirname(os.path.abspath(__file__))
VERIF = os.path.dirname(HERE)
PY = sys.executable
NSHARDS_DEFAULT = 16


def rel(path):
    return os.path.relpath(path, VERIF)


def sig_matches(sig, pattern):
    """'clause/what' matches itself and '*/what' (any clause of the property)"""
    if pattern.startswith("*/"):
        return sig.split("/", 1)[-1] == pattern[2:]
    return sig == pattern


def load_findings():
    p = os.path.join(VERIF, "known_findings.json")
    if not os.path.exists(p):
        return {"open": [], "fixed": []}
    with open(p) as fh:
        return json.load(fh)


def start_shards(pid, tier, vseed, nshards, work, hashseed_mode, only):
    procs = []
    for i in range(nshards):
        env = dict(os.environ)
        env["PYTHONHASHSEED"] = str(i) if hashseed_mode == "vary" else "0"
        env["MPLBACKEND"] = "Agg"
        env["PV_AMBIENT"] = "errstate_ignore" if i % 2 == 1 else "default"
        env["OMP_NUM_THREADS"] = env["OPENBLAS_NUM_THREADS"] = env["MKL_NUM_THREADS"] = "1"
        out = os.path.join(work, "shard_%d.json" % i)
        cmd = [PY, "-m", "pv.worker", pid, tier, str(vseed), str(i), str(nshards), out, only or ""]
        log = open(os.path.join(work, "shard_%d.log" % i), "w")
        procs.append((i, out, subprocess.Popen(cmd, cwd=VERIF, env=env, stdout=log, stderr=subprocess.STDOUT), log))
    return procs


def collect_shards(procs, work):
    results = []
    if os.environ.get("PV_FAIL_FAST"):
        # sensitivity tooling only: as soon as one shard has finished with a recorded failure the others are stopped
        live = True
        while live:
            live = any(p.poll() is None for _, _, p, _ in procs)
            for i, out, p, log in procs:
                if p.poll() is not None and os.path.exists(out):
                    try:
                        with open(out) as fh:
                            done = json.load(fh)
                    except ValueError:
                        continue
                    pats = [f["signature"] for f in load_findings()["open"]]
                    if any(not any(sig_matches(sg, pt) for pt in pats) for c in done["clauses"].values() for sg in c["failures"]):
                        for _, out2, p2, _ in procs:
                            if p2.poll() is None:
                                p2.terminate()
                        live = False
                        break
            time.sleep(0.2)
        for i, out, p, log in procs:
            p.wait()
            if not os.path.exists(out):
                with open(out, "w") as fh:
                    json.dump({"shard": i, "hashseed": None, "clauses": {}, "error": None}, fh)
    for i, out, p, log in procs:
        p.wait()
        log.close()
        if os.path.exists(out):
            try:
                with open(out) as fh:
                    results.append(json.load(fh))
            except ValueError:
                if not os.environ.get("PV_FAIL_FAST"):
                    raise
                # sensitivity tooling: a shard stopped while it was writing its result file
                results.append({"shard": i, "hashseed": None, "clauses": {}, "error": None})
        else:
            with open(os.path.join(work, "shard_%d.log" % i)) as fh:
                tail = fh.read()[-3000:]
            results.append({"shard": i, "clauses": {}, "error": "shard %d died rc=%s\n%s" % (i, p.returncode, tail)})
    return results


def aggregate(mod, results):
    agg = {}
    for c in mod.CLAUSES:
        agg[c.name] = {"evals": 0, "hashes": set(), "labels": {}, "samples": [], "failures": {},
                       "skips": {}, "wall": 0.0, "budget_exhausted": False, "exhaustive_total": None,
                       "hashseeds": set(), "values": {}}
    for r in results:
        for name, s in r["clauses"].items():
            a = agg[name]
            a["evals"] += s["evals"]
            a["hashes"].update(s["hashes"])
            for k, v in s["labels"].items():
                a["labels"][k] = a["labels"].get(k, 0) + v
            for k, v in s["skips"].items():
                a["skips"][k] = a["skips"].get(k, 0) + v
            if len(a["samples"]) < 3:
                a["samples"].extend(s["samples"][: 3 - len(a["samples"])])
            a["wall"] = max(a["wall"], s["wall"])
            a["budget_exhausted"] |= s["budget_exhausted"]
            if s["exhaustive_total"] is not None:
                a["exhaustive_total"] = s["exhaustive_total"]
            if s["evals"]:
                a["hashseeds"].add(r.get("hashseed"))
            for h, (val, case) in s.get("values", {}).items():
                a["values"].setdefault(h, {"case": case, "by": {}})["by"].setdefault(val, []).append(r.get("hashseed"))
            for sig, f in s["failures"].items():
                g = a["failures"].setdefault(sig, {"count": 0, "msg": f["msg"], "cases": [], "hashseed": r.get("hashseed"), "ambient": r.get("ambient")})
                g["count"] += f["count"]
                g["cases"].extend(f["cases"])
                g["cases"].sort(key=lambda c: len(json.dumps(c)))
                del g["cases"][3:]
    for name, a in agg.items():
        n_multi = 0
        for h, v in a["values"].items():
            if sum(len(x) for x in v["by"].values()) > 1:
                n_multi += 1
            if len(v["by"]) > 1:
                sig = "%s/differs_between_processes" % name
                g = a["failures"].setdefault(sig, {"count": 0, "msg": "", "cases": [], "hashseed": None})
                g["count"] += 1
                g["cases"].append(v["case"])
                g["msg"] = "same case, different results per PYTHONHASHSEED: %s" % json.dumps(v["by"])[:400]
        a["cross_compared"] = n_multi
    return agg


def write_replay(pid, clause, sig, case, msg, hashseed, prefix="", ambient=None):
    from .core import case_hash
    d = os.path.join(os.environ.get("PV_REPLAY_DIR") or os.path.join(VERIF, "replays"), pid)
    os.makedirs(d, exist_ok=True)
    name = "%s%s-%s.json" % (prefix, sig.replace("/", "-").replace(":", "_").replace("@", "_at_")[:60], case_hash(case)[:8])
    path = os.path.join(d, name)
    with open(path, "w") as fh:
        json.dump({"property": pid, "clause": clause, "signature": sig, "message": msg,
                   "hashseed": hashseed, "ambient": ambient or "default", "case": case}, fh, indent=1)
    return path


def do_replay(mod, pid, path):
    from .core import run_case
    with open(path) as fh:
        rep = json.load(fh)
    hs = rep.get("hashseed")
    amb = rep.get("ambient") or "default"
    if ((hs is not None and os.environ.get("PYTHONHASHSEED") != str(hs)) or os.environ.get("PV_AMBIENT", "default") != amb) and not os.environ.get("PV_REEXEC"):
        env = dict(os.environ, PV_REEXEC="1", PV_AMBIENT=amb)
        if hs is not None:
            env["PYTHONHASHSEED"] = str(hs)
        os.execve(PY, [PY, "-m", "pv.runner"] + sys.argv[1:], env)
    clause = {c.name: c for c in mod.CLAUSES}[rep["clause"]]
    res = run_case(clause, rep["case"])
    return rep, res


def run_fixed_and_known(mod, pid, findings):
    """Replay tier: committed regression inputs + listed open findings."""
    from .core import run_case
    clauses = {c.name: c for c in mod.CLAUSES}
    out = {"violations": [], "known_lines": [], "fixed_run": 0, "notes": []}
    for path in sorted(glob.glob(os.path.join(VERIF, "replays", pid, "fixed-*.json"))):
        with open(path) as fh:
            rep = json.load(fh)
        if rep["clause"] not in clauses:
            out["notes"].append("replay %s names unknown clause %s" % (rel(path), rep["clause"]))
            continue
        res = run_case(clauses[rep["clause"]], rep["case"])
        out["fixed_run"] += 1
        if res["outcome"] == "violation":
            out["violations"].append((res["sig"], rel(path), res["msg"]))
    for f in findings["open"]:
        if f["property"] != pid:
            continue
        res = run_case(clauses[f["clause"]], f["case"])
        if res["outcome"] == "violation" and sig_matches(res["sig"], f["signature"]):
            out["known_lines"].append("KNOWN-FINDING: property=%s %s" % (pid, f["what"]))
        else:
            out["notes"].append("NOTE: listed finding %s no longer reproduces (outcome=%s sig=%s)"
                                % (f.get("id"), res["outcome"], res["sig"]))
    return out


def main(argv=None):
    ap = argparse.ArgumentParser()
    ap.add_argument("pid")
    ap.add_argument("--tier", default=os.environ.get("VERIF_TIER", "quick"), choices=["quick", "thorough"])
    ap.add_argument("--replay")
    ap.add_argument("--shards", type=int, default=int(os.environ.get("PV_SHARDS", NSHARDS_DEFAULT)))
    ap.add_argument("--clauses", default="")
    ap.add_argument("--no-evidence", action="store_true")
    args = ap.parse_args(argv)
    pid = args.pid.upper()
    try:
        vseed = int(os.environ.get("VERIF_SEED", "1"))
    except ValueError:
        vseed = 1
    t0 = time.time()

    try:
        deps.ensure()
        from . import worker
        mod = worker.load_property(pid)
    except Exception as e:  # noqa: BLE001
        print("HARNESS-ERROR property=%s %s: %s" % (pid, type(e).__name__, e))
        import traceback
        traceback.print_exc()
        return 2

    import warnings
    warnings.simplefilter("ignore")

    if args.replay:
        rep, res = do_replay(mod, pid, args.replay)
        print("replay %s clause=%s outcome=%s sig=%s %s" % (args.replay, rep["clause"], res["outcome"], res["sig"], res["msg"]))
        if res["outcome"] == "violation":
            findings = load_findings()
            known = [f for f in findings["open"] if f["property"] == pid and sig_matches(res["sig"], f["signature"])]
            if known:
                print("KNOWN-FINDING: property=%s %s" % (pid, known[0]["what"]))
                return 0
            print("VIOLATION property=%s replay=%s" % (pid, args.replay))
            return 1
        return 0

    findings = load_findings()
    open_sigs = {f["signature"] for f in findings["open"] if f["property"] == pid}
    work = os.path.join(VERIF, ".work", pid, "%d" % os.getpid())
    os.makedirs(work, exist_ok=True)
    try:
        # the shards run while the main process replays the committed regression inputs and the listed findings
        procs = start_shards(pid, args.tier, vseed, args.shards, work, getattr(mod, "HASHSEEDS", "fixed"), args.clauses)
        try:
            pre = run_fixed_and_known(mod, pid, findings)
        finally:
            results = collect_shards(procs, work)
    except Exception as e:  # noqa: BLE001
        print("HARNESS-ERROR property=%s %s: %s" % (pid, type(e).__name__, e))
        import traceback
        traceback.print_exc()
        return 2
    finally:
        pass

    errors = [r["error"] for r in results if r.get("error")]
    agg = aggregate(mod, results)
    extra = {}
    if args.tier == "thorough" and getattr(mod, "FUZZ", None) and not args.clauses:
        try:
            from . import fuzzstage
            extra["atheris"] = fuzzstage.run(mod, pid, vseed, work, agg)
            for cname in extra["atheris"].get("vacuous", []):
                errors.append("coverage-guided stage of clause %s executed no valid case (vacuous)" % cname)
        except Exception as e:  # noqa: BLE001
            extra["atheris"] = {"status": "skipped", "reason": "%s: %s" % (type(e).__name__, e)}
    shutil.rmtree(work, ignore_errors=True)

    # ---- verdict
    from .core import shrink
    clauses = {c.name: c for c in mod.CLAUSES}
    violations = []          # (sig, replay path, msg)
    known_matched = 0
    for sig, path, msg in pre["violations"]:
        violations.append((sig, path, "regression of a fixed defect: " + msg))
    for name, a in agg.items():
        for sig, f in a["failures"].items():
            if any(sig_matches(sig, pat) for pat in open_sigs):
                known_matched += f["count"]
                continue
            case = f["cases"][0]
            try:
                if "no_result_within" in sig or os.environ.get("PV_NO_SHRINK"):
                    raise RuntimeError("no shrinking of non-terminating cases / shrinking switched off (sensitivity tooling)")
                budget = 300 if args.tier == "quick" else 1500
                os.environ["PV_AMBIENT"] = f.get("ambient") or "default"      # shrink and re-run under the setting the shard ran with
                small, _ = shrink(clauses[name], case, sig, budget=budget, wall=45.0 if args.tier == "quick" else 240.0,
                                  valid=getattr(mod, "VALID", {}).get(name, getattr(mod, "VALID_DEFAULT", None)))
            except Exception:  # noqa: BLE001
                small = case
            from .core import run_case
            if small is not case:
                r = run_case(clauses[name], small)
                msg = r["msg"] if r["outcome"] == "violation" else f["msg"]
                if r["outcome"] != "violation":
                    small = case
            else:
                msg = f["msg"]
            os.environ.pop("PV_AMBIENT", None)
            path = write_replay(pid, name, sig, small, msg, f.get("hashseed"), ambient=f.get("ambient"))
            violations.append((sig, rel(path), "%s (x%d)" % (msg, f["count"])))

    floor_errors = []
    for c in mod.CLAUSES:
        a = agg[c.name]
        if args.clauses and c.name not in args.clauses.split(","):
            continue
        for lab, floor in c.floors.items():
            if a["evals"] >= 200:
                frac = a["labels"].get(lab, 0) / float(a["evals"])
                if frac < floor:
                    floor_errors.append("clause %s: label %r at %.4f < floor %.4f (generator distribution)"
                                        % (c.name, lab, frac, floor))

    wall = time.time() - t0
    if not args.no_evidence:
        try:
            write_evidence(mod, pid, args.tier, vseed, agg, pre, violations, known_matched, wall, extra, findings)
        except Exception as e:  # noqa: BLE001
            errors.append("evidence: %s: %s" % (type(e).__name__, e))

    for line in pre["known_lines"]:
        print(line)
    for n in pre["notes"]:
        print(n)
    tot = sum(a["evals"] for a in agg.values())
    nt = sum(len(a["hashes"]) for a in agg.values())
    print("property=%s tier=%s seed=%d evaluations=%d distinct_nontrivial=%d known_matched=%d wall=%.1fs"
          % (pid, args.tier, vseed, tot, nt, known_matched, wall))
    if violations:
        for e in errors[:3]:
            print("HARNESS-ERROR property=%s %s" % (pid, e))
        for sig, path, msg in violations:
            print("  %s: %s" % (sig, msg))
            print("VIOLATION property=%s replay=%s" % (pid, path))
        return 1
    if errors or floor_errors:
        for e in errors[:3] + floor_errors:
            print("HARNESS-ERROR property=%s %s" % (pid, e))
        return 2
    return 0


def write_evidence(mod, pid, tier, vseed, agg, pre, violations, known_matched, wall, extra, findings):
    per = {}
    samples = []
    rule_parts = []
    for c in mod.CLAUSES:
        a = agg[c.name]
        if a["evals"] == 0 and not a["exhaustive_total"]:
            continue
        per[c.name] = {
            "evaluations": a["evals"],
            "distinct_nontrivial": len(a["hashes"]),
            "rule": c.rule,
            "labels": dict(sorted(a["labels"].items(), key=lambda kv: -kv[1])),
            "excluded": a["skips"],
            "exhaustive": bool(c.exhaustive),
            "failures": {s: f["count"] for s, f in a["failures"].items()},
            "budget_exhausted": a["budget_exhausted"],
            "hash_seeds": sorted(x for x in a["hashseeds"] if x is not None),
            "max_shard_wall_s": round(a["wall"], 1),
        }
        if c.cross_shard:
            per[c.name]["cases_compared_across_hash_seeds"] = a.get("cross_compared", 0)
        if c.exhaustive:
            per[c.name]["exhaustive_slice_size"] = a["exhaustive_total"]
        for s in a["samples"][:2]:
            samples.append({"clause": c.name, "case": s})
        rule_parts.append("%s: %s" % (c.name, c.rule))
    ev = {
        "property_id": pid,
        "tier": tier,
        "seed": vseed,
        "level": "exploration",
        "coverage": {
            "evaluations": sum(a["evals"] for a in agg.values()),
            "distinct_nontrivial": sum(len(a["hashes"]) for a in agg.values()),
            "rule": getattr(mod, "RULE", "") + " Per clause (a case is distinct by the sha1 of its canonical JSON; "
                    "counted only if the clause's non-triviality rule holds): " + " | ".join(rule_parts),
            "samples": samples[:24],
            "exhaustive": False,
            "clauses": per,
            "engine": "hypothesis %s, %d fresh shard processes, seed=sha256(VERIF_SEED,ID,clause,shard)" % (_hyp_version(), NSHARDS_DEFAULT),
            "ambient_settings": "shards with an even index run under NumPy's default floating-point error handling ('warn'), shards with an odd "
                                "index under np.errstate(all='ignore'); a failure records the setting and its replay re-executes under it",
            "fixed_regression_replays_run": pre["fixed_run"],
            "known_findings_listed": [f["id"] for f in findings["open"] if f["property"] == pid],
            "generated_cases_matching_known_finding": known_matched,
        },
        "assumptions": getattr(mod, "ASSUMPTIONS", []),
        "wall_s": round(wall, 2),
        "violations": len(violations),
    }
    ev["coverage"].update(extra)
    schema_path = os.path.join(HERE, "schemas", "EVIDENCE.schema.json")
    if os.path.exists(schema_path):
        import jsonschema
        with open(schema_path) as fh:
            jsonschema.validate(ev, json.load(fh))
    d = os.path.join(VERIF, "evidence")
    os.makedirs(d, exist_ok=True)
    tmp = os.path.join(d, ".%s.json.tmp" % pid)
    with open(tmp, "w") as fh:
        json.dump(ev, fh, indent=1, sort_keys=False)
    os.replace(tmp, os.path.join(d, "%s.json" % pid))


def _hyp_version():
    try:
        import hypothesis
        return hypothesis.__version__
    except Exception:  # noqa: BLE001
        return "?"


if __name__ == "__main__":
    sys.exit(main())
