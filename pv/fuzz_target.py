"""Coverage-guided stage: atheris (libFuzzer) drives a clause through hypothesis' fuzz_one_input.

usage: python -m pv.fuzz_target <ID> <clause> <out.jsonl> [libFuzzer flags ...] <corpus dir>

The decoded inputs are exactly the clause's strategy and the semantic oracle is inside the target (a crash-only
target would check nothing here).  Failures are appended to <out.jsonl> as they happen, statistics every 500
executions (atheris.Fuzz() never returns and atexit handlers do not run)."""
import json
import os
import sys
import time
import warnings

from . import deps

deps.add_path()
os.environ.setdefault("PERSIM_VERIF", "1")
os.environ.setdefault("MPLBACKEND", "Agg")


def main(argv):
    pid, clause_name, out = argv[:3]
    flags = argv[3:]
    import atheris
    root = os.path.realpath(os.environ.get("PERSIM_VERIF_ROOT", "/repo"))
    sys.path.insert(0, root)
    warnings.simplefilter("ignore")
    with atheris.instrument_imports(include=["persim"]):
        import persim  # noqa: F401
        import persim.landscapes.exact, persim.landscapes.auxiliary, persim.landscapes.approximate  # noqa: F401,E401
        import persim.bottleneck, persim.gromov_hausdorff, persim.wasserstein  # noqa: F401,E401
    if not os.path.realpath(persim.__file__).startswith(root + os.sep):
        raise RuntimeError("persim imported from %s" % persim.__file__)
    import importlib
    mod = importlib.import_module("pv.props.%s" % pid.lower())
    clause = {c.name: c for c in mod.CLAUSES}[clause_name]
    from hypothesis import HealthCheck, given, settings
    from .core import case_hash, run_case

    stats = {"execs": 0, "valid": 0, "nontrivial": set(), "failures": 0, "t0": time.time()}
    fh = open(out, "a")

    def flush():
        fh.write(json.dumps({"stats": {"execs": stats["execs"], "valid": stats["valid"], "distinct_nontrivial": len(stats["nontrivial"]),
                                       "failures": stats["failures"], "wall": round(time.time() - stats["t0"], 1)}}) + "\n")
        fh.flush()

    @settings(database=None, deadline=None, suppress_health_check=list(HealthCheck))
    @given(clause.strategy)
    def test(case):
        stats["valid"] += 1
        res = run_case(clause, case)
        if res["nontrivial"]:
            stats["nontrivial"].add(case_hash(case))
        if res["outcome"] == "violation":
            stats["failures"] += 1
            fh.write(json.dumps({"failure": {"sig": res["sig"], "msg": res["msg"], "case": case}}) + "\n")
            fh.flush()

    def one_input(data):
        stats["execs"] += 1
        try:
            test.hypothesis.fuzz_one_input(data)
        except Exception as e:  # harness error inside the oracle / generator: record, do not crash the campaign
            fh.write(json.dumps({"harness_error": "%s: %s" % (type(e).__name__, e)}) + "\n")
            fh.flush()
        if stats["execs"] % 500 == 0:
            flush()

    atheris.Setup([sys.argv[0]] + flags, one_input)
    flush()
    atheris.Fuzz()


if __name__ == "__main__":
    main(sys.argv[1:])
