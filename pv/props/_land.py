"""Shared helpers for the landscape properties (C03, C08, C09, C10, C18)."""
import math

import numpy as np
from hypothesis import strategies as st

from persim import PersLandscapeExact

from ..core import Violation, close
from ..oracles import landscape as L
from ..strategies import diagram_family, finite

INF = float("inf")


def bar_family(min_size=1, max_size=8, count=1, dup_bias=False, **kw):
    return diagram_family(count=count, min_size=min_size, max_size=max_size, allow_diag=False, dup_bias=dup_bias, **kw)


EXTREME = (30, 38, -30, 100, -100)     # "any scale": far from float64 overflow (1e308), beyond float32's range


def has_repeated(bars):
    t = [tuple(b) for b in bars]
    return len(set(t)) < len(t)


def structure_labels(bars):
    """which tie / overlap classes a diagram exhibits"""
    labs = set()
    n = len(bars)
    bs = [b for b, _ in bars]
    ds = [d for _, d in bars]
    if len(set(bs)) < n:
        labs.add("equal_births")
    if len(set(ds)) < n:
        labs.add("equal_deaths")
    if has_repeated(bars):
        labs.add("repeated_bar")
    for i in range(n):
        for j in range(n):
            if i == j:
                continue
            b1, d1 = bars[i]
            b2, d2 = bars[j]
            if d1 == b2:
                labs.add("touching")
            if b1 < b2 < d1 < d2:
                labs.add("overlap_not_nested")   # forces a Case III step
            if b1 <= b2 and d2 <= d1 and (b1, d1) != (b2, d2):
                labs.add("nested")
    return labs


def shortcut_fired(ple):
    return int(getattr(ple, "_verif_shortcut_fired", 0) or 0)


def exact_from_bars(ctx, bars, hom_deg=0, pad=None, trailing_inf=None):
    """PersLandscapeExact(dgms=[...], hom_deg) with the bars placed at index hom_deg"""
    arr = np.array(bars + ([[trailing_inf, INF]] if trailing_inf is not None else []), dtype=float)
    dgms = []
    for i in range(hom_deg + 1 + (1 if pad else 0)):
        if i == hom_deg:
            dgms.append(arr)
        else:
            dgms.append(np.array(pad if pad else [[0.0, 1.0]], dtype=float))
    return ctx.call(PersLandscapeExact, dgms=dgms, hom_deg=hom_deg)


def check_wellformed(ctx, cps, n_bars):
    ctx.require(isinstance(cps, list) and len(cps) >= 1, "no_depths", lambda: "critical_pairs=%r" % (cps,))
    ctx.require(len(cps) <= n_bars, "too_many_depths", lambda: "%d depths for %d bars" % (len(cps), n_bars))
    for k, depth in enumerate(cps):
        xs = [float(p[0]) for p in depth]
        ys = [float(p[1]) for p in depth]
        ctx.require(len(depth) >= 2 and all(math.isfinite(v) for v in xs + ys), "malformed_depth", lambda: "depth %d: %r" % (k, depth))
        ctx.require(all(a <= b for a, b in zip(xs, xs[1:])), "abscissae_not_ordered", lambda: "depth %d abscissae %r" % (k, xs))
        ctx.require(ys[0] == 0 and ys[-1] == 0, "does_not_vanish_at_ends", lambda: "depth %d ordinates %r" % (k, ys))


def compare_with_definition(bars, cps, scale):
    """-> None if the PL functions given by cps equal the k-th-largest-tent definition everywhere
    (decided exactly on breakpoints + midpoints + outside points), else a message"""
    own = [float(p[0]) for depth in cps for p in depth]
    T = L.eval_points(L.breakpoint_candidates(bars), own)
    n = len(bars)
    for t in T:
        truth = L.values_at(bars, t)
        for k in range(n):
            got = L.pl_eval(cps[k], t) if k < len(cps) else 0.0
            if not close(got, truth[k], scale):
                return "depth %d at t=%r: landscape gives %r, k-th largest tent is %r (returned depths: %d)" % (k + 1, t, got, truth[k], len(cps))
    return None


def compare_with_definition_np(bars, cps, scale):
    """vectorised version of compare_with_definition for diagrams of ~100 bars"""
    b = np.array([x[0] for x in bars], dtype=float)
    d = np.array([x[1] for x in bars], dtype=float)
    own = [float(p[0]) for depth in cps for p in depth]
    cand = np.unique(np.concatenate([b, d, ((b[:, None] + d[None, :]) / 2.0).ravel(), np.array(own, dtype=float)]))
    mids = (cand[1:] + cand[:-1]) / 2.0
    span = max(1.0, float(cand[-1] - cand[0]))
    T = np.unique(np.concatenate([cand, mids, [cand[0] - span, cand[-1] + span]]))
    tents = np.maximum(0.0, np.minimum(T[None, :] - b[:, None], d[:, None] - T[None, :]))
    truth = -np.sort(-tents, axis=0)
    n = len(bars)
    tol = 1e-9 * scale
    for k in range(n):
        if k < len(cps):
            xs = np.array([p[0] for p in cps[k]], dtype=float)
            ys = np.array([p[1] for p in cps[k]], dtype=float)
            if np.all(np.diff(xs) > 0):
                got = np.interp(T, xs, ys, left=0.0, right=0.0)
            else:
                got = np.array([L.pl_eval(cps[k], float(t)) for t in T])
        else:
            got = np.zeros_like(T)
        bad = np.abs(got - truth[k]) > tol + 1e-9 * np.maximum(np.abs(got), np.abs(truth[k]))
        if np.any(bad):
            i = int(np.argmax(bad))
            return "depth %d at t=%r: landscape gives %r, k-th largest tent is %r (returned depths: %d)" % (k + 1, float(T[i]), float(got[i]), float(truth[k][i]), len(cps))
    return None


def coord_scale(bars):
    return max([abs(x) for b in bars for x in b] + [1e-300])


# ---------------------------------------------------------------------------------------
# piecewise-linear functions as critical pairs (the form every landscape operation produces)

@st.composite
def pl_depth(draw, grid=None, min_pts=2, max_pts=7, signed=True):
    """strictly increasing abscissae, first and last ordinate 0, interior ordinates of either sign,
    flats, nearly flat segments and exact zeros; abscissae from a small lattice (so that different
    functions share breakpoints) or free floats"""
    n = draw(st.integers(min_pts, max_pts))
    if grid is None:
        grid = draw(st.sampled_from(["lattice", "lattice", "float"]))
    if grid == "lattice":
        xs = sorted(draw(st.lists(st.integers(-6, 12), min_size=n, max_size=n, unique=True)))
        xs = [x / 2.0 for x in xs]
    else:
        # free floats, but at least 1e-6 apart (denormal spacings overflow any slope and are outside every realistic input)
        xs = sorted(draw(st.lists(finite(-10, 10).map(lambda v: round(v, 6) + 0.0), min_size=n, max_size=n, unique=True)))
    yv = st.one_of(st.integers(-4, 4).map(float), st.sampled_from([0.0, 1.0, 1.0, -1.0, 0.5]),
                   st.sampled_from([1.0 + 1e-6, 1.0 - 1e-6, -1.0 + 1e-6]), finite(-5, 5).map(lambda v: 0.0 if abs(v) < 1e-3 else v))
    if not signed:
        yv = st.one_of(st.integers(0, 4).map(float), finite(0, 5).map(lambda v: 0.0 if abs(v) < 1e-3 else v))
    ys = [0.0] + [draw(yv) for _ in range(n - 2)] + [0.0]
    return [[x, y] for x, y in zip(xs, ys)]


@st.composite
def pl_function(draw, min_depths=1, max_depths=4, **kw):
    k = draw(st.integers(min_depths, max_depths))
    return [draw(pl_depth(**kw)) for _ in range(k)]


def valid_pl(depths):
    try:
        for d in depths:
            if len(d) < 2 or d[0][1] != 0 or d[-1][1] != 0:
                return False
            xs = [q[0] for q in d]
            if any(not a < b for a, b in zip(xs, xs[1:])):
                return False
            if any(not (math.isfinite(q[0]) and math.isfinite(q[1])) for q in d):
                return False
        return len(depths) >= 1
    except Exception:
        return False


def pl_features(depths):
    labs = set()
    for d in depths:
        for (x0, y0), (x1, y1) in zip(d, d[1:]):
            if (y0 < 0 < y1) or (y1 < 0 < y0):
                labs.add("crossing")
            if y0 == y1 and y0 != 0:
                labs.add("flat")
            if y0 != y1 and abs(abs(y0) - abs(y1)) < 1e-5 * max(abs(y0), abs(y1)):
                labs.add("nearly_flat")
            if min(y0, y1) < 0:
                labs.add("negative")
    return labs
