"""C04 - persistence image pixels are weighted kernel mass over each pixel square."""
import numpy as np
from hypothesis import strategies as st

from ..core import Clause
from . import _img as I

RULE = ("Imagers are configured through the public constructor on exact-multiple grids (resolution <= 8x8, pixel sizes 0.125..2) so that "
        "C12's concern stays separate; kernels: scalar / isotropic matrix (fast path), axis-aligned, correlated (|r| <= 0.99, all four "
        "quadrature regimes), uniform box smaller and larger than a pixel; weights: persistence^n, linear_ramp, user callables; diagrams "
        "of 1..5 points inside / on the border / on pixel corners / up to two widths outside, given in birth-death or birth-persistence form.")
ASSUMPTIONS = [
    "reference pixel mass: product of normal CDF differences (axis-aligned), adaptive quadrature of phi(x)*[Phi-Phi] over the pixel's birth "
    "interval (correlated), overlap area (uniform box); pixel (i,j) = [B0+i*s, B0+(i+1)*s] x [P0+j*s, P0+(j+1)*s] from the PUBLIC ranges",
    "tolerance per pixel 1e-7 * sum|weights| (the kernel's own accuracy target, C13); axis swaps, sigma-vs-sigma^2 slips or wrong corners "
    "are O(1e-2) effects",
]


@st.composite
def s_pixels(draw):
    spec = draw(I.imager_spec(max_res=8))
    pts = draw(I.points_bp(spec["grid"], 1, 5))
    return {"spec": spec, "pts": pts, "skew": draw(st.booleans())}


def check_pixels(case, ctx):
    spec, pts = case["spec"], case["pts"]
    if not pts:
        ctx.skip("no points (shrinker)")
    g = spec["grid"]
    ctx.label("kernel:" + I.kernel_class(spec["kernel"]), "weight:" + spec["weight"]["type"],
              "fast_path" if I.is_fast_path(spec["kernel"]) else "general_path", "skew" if case["skew"] else "noskew")
    imgr = ctx.call(I.make_imager, spec)
    ctx.require(tuple(imgr.resolution) == (g["nb"], g["np"]), "resolution",
                lambda: "resolution %s for %d x %d exact pixels" % (imgr.resolution, g["nb"], g["np"]))
    arr = np.array(I.to_bd(pts) if case["skew"] else pts, dtype=float)
    img = np.asarray(ctx.call(imgr.transform, arr, skew=case["skew"]))
    ctx.require(img.shape == (g["nb"], g["np"]), "shape", lambda: "image shape %s, expected (n_birth, n_pers) = %s" % (img.shape, (g["nb"], g["np"])))
    s = g["pixel"]
    br, pr = imgr.birth_range, imgr.pers_range
    per_point = []
    wsum = 0.0
    for b, p in I.effective_bp(pts, case["skew"]):
        w = I.weight_ref(spec["weight"], b, p)
        wsum += abs(w)
        one = np.zeros((g["nb"], g["np"]))
        if w != 0.0:
            for i in range(g["nb"]):
                for j in range(g["np"]):
                    one[i, j] = w * I.pixel_mass_ref(spec["kernel"], (b, p), br[0] + i * s, br[0] + (i + 1) * s,
                                                     pr[0] + j * s, pr[0] + (j + 1) * s)
        per_point.append(one)
    ref = np.sum(per_point, axis=0)
    overlap = False
    if wsum > 0 and len(pts) >= 2:
        big = [np.abs(one) >= 0.01 * wsum for one in per_point]
        overlap = bool(np.any(np.sum(big, axis=0) >= 2))
    ctx.label("overlap" if overlap else None)
    ctx.nontrivial(len(pts) >= 2 and overlap)
    tol = 1e-7 * wsum + 1e-300
    err = np.abs(img - ref)
    ctx.require(not np.any(np.isnan(img)), "nan", lambda: "NaN pixels; spec=%s pts=%s" % (spec, pts))
    ctx.require(np.all(err <= tol), "pixel_value",
                lambda: "pixel %s: image %r, weighted kernel mass %r (max err %.3g, tol %.3g); kernel=%s weight=%s pts=%s"
                % (np.unravel_index(np.argmax(err), err.shape), img.flat[np.argmax(err)], ref.flat[np.argmax(err)], err.max(), tol,
                   spec["kernel"], spec["weight"], pts))


@st.composite
def s_intforms(draw):
    """integer-valued diagrams held as narrow integer arrays (an 8-bit image filtration gives uint8 births and deaths), an integer exponent
    of the persistence weight, and the scalar variance of the isotropic kernel given as the scalar types users hold it in"""
    nb, npx = draw(st.integers(2, 6)), draw(st.integers(2, 6))
    g = {"pixel": draw(st.sampled_from([1.0, 2.0, 4.0])), "b_lo": draw(st.integers(0, 3)), "nb": nb, "p_lo": 0, "np": npx}
    s = g["pixel"]
    n = draw(st.integers(1, 4))
    pts = [[int((g["b_lo"] + draw(st.integers(0, nb))) * s), int(draw(st.integers(1, 5 * npx)) * s)] for _ in range(n)]     # (birth, persistence)
    return {"grid": g, "pts": pts, "n": draw(st.sampled_from([1, 2, 3, 2.0])), "var": draw(st.sampled_from([1, 2, 4.0, 0.5])),
            "var_type": draw(st.sampled_from(["python", "python", "np.float64", "np.int64", "np.float32", "0-d array"])),
            "dtype": draw(st.sampled_from(["uint8", "int16", "int64", "list", "float64"])), "skew": draw(st.booleans())}


def check_intforms(case, ctx):
    g, pts = case["grid"], case["pts"]
    var = case["var"]
    vt = case["var_type"]
    if vt == "np.int64" and float(var).is_integer():
        sig = np.int64(int(var))
    elif vt == "np.float32":
        sig = np.float32(var)           # 0.5, 1, 2, 4 are exact in single precision
    elif vt == "np.float64":
        sig = np.float64(var)
    elif vt == "0-d array":
        sig = np.array(float(var))
    else:
        sig = var
    spec = {"grid": g, "kernel": {"type": "scalar", "var": float(var)}, "weight": {"type": "persistence", "n": float(case["n"])}}
    from persim import PersistenceImager
    br, pr = I.grid_ranges(g)
    imgr = ctx.call(PersistenceImager, birth_range=br, pers_range=pr, pixel_size=g["pixel"], weight="persistence", weight_params={"n": case["n"]},
                    kernel="gaussian", kernel_params={"sigma": sig})
    rows = I.to_bd(pts) if case["skew"] else pts
    dt = case["dtype"]
    hi = max(v for q in rows for v in q)
    if dt == "uint8" and hi > 255:
        dt = "int16"
    arr = [[int(v) for v in q] for q in rows] if dt == "list" else np.array(rows, dtype=getattr(np, dt))
    pmax = max(q[1] for q in pts)
    wraps = dt in ("uint8", "int16") and float(pmax) ** float(case["n"]) > (255 if dt == "uint8" else 32767)
    ctx.label("dtype:" + dt, "variance_as:" + vt, "n=%r" % (case["n"],), "persistence^n_exceeds_dtype" if wraps else None)
    ctx.nontrivial(wraps or vt not in ("python", "np.float64"))
    img = np.asarray(ctx.call(imgr.transform, arr, skew=case["skew"]))
    s = g["pixel"]
    ref = np.zeros((g["nb"], g["np"]))
    wsum = 0.0
    for b, p in pts:
        w = float(p) ** float(case["n"])
        wsum += w
        for i in range(g["nb"]):
            for j in range(g["np"]):
                ref[i, j] += w * I.pixel_mass_ref(spec["kernel"], (float(b), float(p)), br[0] + i * s, br[0] + (i + 1) * s, pr[0] + j * s, pr[0] + (j + 1) * s)
    err = np.abs(img - ref)
    ctx.require(img.shape == ref.shape and np.all(err <= 1e-7 * wsum + 1e-300), "pixel_value_integer_forms",
                lambda: "max |image - weighted kernel mass| = %.3g (total weight %.3g); diagram %s as %s (skew=%s), persistence weight n=%r, variance %r given as %s"
                % (err.max(), wsum, rows, dt, case["skew"], case["n"], var, vt))


@st.composite
def s_axes(draw):
    g = draw(I.grid_spec(8))
    if g["nb"] == g["np"]:
        g["np"] = g["nb"] + 1
    i = draw(st.integers(0, g["nb"] - 1))
    j = draw(st.integers(0, g["np"] - 1))
    kern = draw(st.sampled_from(["scalar", "axis", "corr", "uniform"]))
    return {"grid": g, "i": i, "j": j, "kern": kern, "skew": draw(st.booleans())}


def check_axes(case, ctx):
    g = case["grid"]
    s = g["pixel"]
    if not (0 <= case["i"] < g["nb"] and 0 <= case["j"] < g["np"]):
        ctx.skip("pixel index outside grid (shrinker)")
    v = (0.02 * s) ** 2
    k = {"scalar": {"type": "scalar", "var": v}, "axis": {"type": "axis", "vx": v, "vy": v / 4, "form": "list"},
         "corr": {"type": "corr", "vx": v, "vy": v, "r": 0.6, "form": "array"},
         "uniform": {"type": "uniform", "w": s / 4, "h": s / 8}}[case["kern"]]
    spec = {"grid": g, "kernel": k, "weight": {"type": "callable", "name": "const", "param": 1.0}}
    imgr = ctx.call(I.make_imager, spec)
    b = (g["b_lo"] + case["i"] + 0.5) * s
    p = (g["p_lo"] + case["j"] + 0.5) * s
    arr = np.array([[b, b + p]] if case["skew"] else [[b, p]])
    img = np.asarray(ctx.call(imgr.transform, arr, skew=case["skew"]))
    ctx.label("kern:" + case["kern"])
    ctx.nontrivial(case["i"] != case["j"])
    ctx.require(img.shape == (g["nb"], g["np"]), "shape", lambda: "shape %s for (n_birth, n_pers)=(%d,%d)" % (img.shape, g["nb"], g["np"]))
    hot = np.unravel_index(np.argmax(img), img.shape)
    ctx.require(tuple(int(x) for x in hot) == (case["i"], case["j"]) and abs(img[case["i"], case["j"]] - 1.0) <= 1e-6,
                "axis_convention", lambda: "a unit-weight narrow point in pixel (birth %d, pers %d) lights %s with value %r"
                % (case["i"], case["j"], hot, img[hot]))


def VALID_DEFAULT(case):
    if "var_type" in case:
        try:
            g = case["grid"]
            return g["pixel"] in (1.0, 2.0, 4.0) and g["nb"] >= 1 and g["np"] >= 1 and len(case["pts"]) >= 1 and all(
                isinstance(q[0], int) and isinstance(q[1], int) and q[1] >= 1 and q[0] >= 0 for q in case["pts"]) and case["n"] in (1, 2, 3, 2.0) and case["var"] in (1, 2, 4.0, 0.5)
        except Exception:
            return False
    if "spec" in case:
        return I.valid_spec(case["spec"]) and len(case["pts"]) >= 1 and all(len(q) == 2 and q[1] >= 0 for q in case["pts"])
    return case["grid"]["pixel"] > 0 and case["grid"]["nb"] >= 1 and case["grid"]["np"] >= 1


CLAUSES = [
    Clause("integer_forms", s_intforms(), check_intforms, quick=1500, thorough=20000,
           rule="integer-valued diagrams as uint8 / int16 / int64 arrays, nested int lists or float arrays, persistence weight with an integer or float "
                "exponent, isotropic Gaussian kernel whose scalar variance is a Python number, np.float64, np.int64, np.float32 or a 0-d array: every pixel "
                "equals the weighted kernel mass (1e-7 of the total weight); non-trivial = persistence^n exceeds the diagram's integer dtype, or a NumPy scalar variance"),
    Clause("pixels", s_pixels(), check_pixels, quick=4000, thorough=40000,
           floors={"fast_path": 0.15, "general_path": 0.15},
           rule="every pixel of transform(diagram) vs sum_i weight_i * (kernel mass of the pixel square); non-trivial = >= 2 points and some "
                "pixel receives >= 1 % of the total weight from two different points"),
    Clause("axes", s_axes(), check_axes, quick=1600, thorough=16000,
           rule="non-square grids: a unit-weight point with a kernel much narrower than a pixel, centred in pixel (i,j), gives an image of shape "
                "(n_birth, n_pers) whose only lit pixel is [i,j] with value 1; non-trivial = i != j"),
]
