"""C08 - grid landscapes stay within half a step of the true landscape; vectorize; transformer; death vector."""
import numpy as np
from hypothesis import strategies as st

from persim import PersistenceLandscaper, PersLandscapeApprox, PersLandscapeExact
from persim.landscapes.tools import death_vector, vectorize

from ..core import Clause, close
from ..oracles import landscape as L
from ..strategies import finite, valid_family
from . import _land as LD

FUZZ = ["half_step"]
RULE = ("Diagrams of 1..10 finite bars (lattice ties / ulp-perturbed / floats; optional infinite bars, which the class documents it removes) "
        "on grids with num_steps in 2..200 covering the diagram (tight, padded or the default None), endpoints on nodes, off nodes and exactly "
        "half-way between nodes.")
ASSUMPTIONS = [
    "the documented 'empty' sentinel (values == ['empty'] with a printed notice, when no snapped bar spans two steps) is read as zero depths returned",
    "a depth that is not returned counts as the zero function",
    "vectorize is compared with the true landscape only when the exact landscape itself is right (C03 hook: shortcut did not fire); the C03 finding "
    "is not re-reported here",
]

INF = float("inf")


def approx_values(ctx, pla):
    v = pla.values
    if isinstance(v, np.ndarray) and v.dtype.kind in "US":
        ctx.label("empty_sentinel")
        return np.zeros((0, pla.num_steps))
    v = np.asarray(v, dtype=float)
    ctx.require(v.ndim == 2 and v.shape[1] == pla.num_steps, "values_shape", lambda: "values shape %s for num_steps=%d" % (v.shape, pla.num_steps))
    return v


@st.composite
def s_grid_case(draw, max_bars=10):
    fam = draw(LD.bar_family(1, max_bars, dup_bias=False))
    bars = fam["dgms"][0]
    kind = draw(st.sampled_from(["tight", "tight", "padded", "padded", "default"]))
    n = draw(st.one_of(st.integers(2, 12), st.sampled_from(list(range(13, 201))), st.sampled_from(list(range(13, 201))), st.sampled_from([2, 3, 5, 11, 101, 200, 500, 500])))
    return {"fam": fam, "grid": kind, "num_steps": n, "pad": [draw(st.sampled_from([0.0, 0.1, 0.5, 1.0, 1 / 3.0])), draw(st.sampled_from([0.0, 0.1, 0.5, 1.0, 0.7]))],
            "n_inf": draw(st.sampled_from([0, 0, 0, 1, 2])), "hom_deg": draw(st.sampled_from([0, 0, 1]))}


def grid_of(case, bars):
    lo = min(b for b, _ in bars)
    hi = max(d for _, d in bars)
    span = hi - lo
    if case["grid"] == "padded":
        return lo - case["pad"][0] * span, hi + case["pad"][1] * span
    return lo, hi


def build_dgms(bars, n_inf, hom_deg):
    rows = [list(b) for b in bars]
    for i in range(n_inf):
        rows.insert((7 * i + 1) % (len(rows) + 1), [bars[i % len(bars)][0], INF])
    arr = np.array(rows, dtype=float)
    dgms = [np.array([[0.0, 1.0], [0.5, 2.5]]) for _ in range(hom_deg)] + [arr]
    return dgms


def check_half_step(case, ctx):
    fam = case["fam"]
    bars = fam["dgms"][0]
    n = case["num_steps"]
    start, stop = grid_of(case, bars)
    ctx.label("mode:" + fam["mode"], "grid:" + case["grid"], "inf_bars" if case["n_inf"] else None,
              "steps<=12" if n <= 12 else "steps>12")
    dgms = build_dgms(bars, case["n_inf"], case["hom_deg"])
    kw = {} if case["grid"] == "default" else {"start": start, "stop": stop}
    pla = ctx.call(PersLandscapeApprox, dgms=dgms, hom_deg=case["hom_deg"], num_steps=n, **kw)
    ctx.require(close(pla.start, start, abs(start) + abs(stop)) and close(pla.stop, stop, abs(start) + abs(stop)) and pla.num_steps == n,
                "grid_params", lambda: "grid (%r,%r,%r), expected (%r,%r,%r)" % (pla.start, pla.stop, pla.num_steps, start, stop, n))
    vals = approx_values(ctx, pla)
    grid, step = np.linspace(start, stop, n, retstep=True)
    scale = LD.coord_scale(bars) + abs(start) + abs(stop)
    tol = step / 2.0 + 1e-9 * scale
    worst = 0.0
    off = False
    for b, d in bars:
        for x in (b, d):
            r = abs(x - grid[int(np.argmin(np.abs(grid - x)))])
            if r > step / 4:
                off = True
    distinct12 = False
    for i, t in enumerate(grid):
        truth = L.values_at(bars, float(t))
        if len(truth) > 1 and truth[0] != truth[1]:
            distinct12 = True
        for k in range(len(bars)):
            got = float(vals[k][i]) if k < vals.shape[0] else 0.0
            err = abs(got - truth[k])
            worst = max(worst, err / step if step > 0 else 0.0)
            ctx.require(err <= tol, "exceeds_half_step",
                        lambda: "depth %d at grid[%d]=%r: approx %r, true %r, |err|=%.6g > step/2=%.6g; bars=%s grid=(%r,%r,%d)"
                        % (k + 1, i, t, got, truth[k], err, step / 2, bars, start, stop, n))
    ctx.require(vals.shape[0] <= len(bars), "too_many_depths", lambda: "%d depths for %d bars" % (vals.shape[0], len(bars)))
    ctx.label("err/step>=0.4" if worst >= 0.4 else "err/step>=0.25" if worst >= 0.25 else "err/step<0.25")
    ctx.nontrivial(len(bars) >= 3 and vals.shape[0] >= 2 and off and distinct12)
    # information only (NOT a requirement - the property bounds the error, it does not prescribe the snapping rule):
    # do the values coincide with the k-th largest tent of the bars snapped to their nearest nodes?
    model = L.approx_model(bars, start, stop, n)
    same = len(model) == vals.shape[0] and all(np.all(np.abs(np.array(row) - vals[k]) <= 1e-9 * scale) for k, row in enumerate(model))
    ctx.label("equals_snapped_bar_model" if same else "differs_from_snapped_bar_model")


@st.composite
def s_on_grid(draw):
    n = draw(st.integers(3, 60))
    start = draw(st.one_of(st.integers(-5, 5).map(float), finite(-10, 10)))
    span = draw(st.one_of(st.integers(1, 20).map(float), finite(0.1, 50)))
    m = draw(st.integers(1, 8))
    idx = []
    for _ in range(m):
        i = draw(st.integers(0, n - 2))
        j = draw(st.integers(i + 1, n - 1))
        idx.append([i, j])
    return {"n": n, "start": start, "span": span, "idx": idx, "cover": draw(st.booleans())}


def check_on_grid(case, ctx):
    n, start = case["n"], case["start"]
    stop = start + case["span"]
    if not stop > start or any(not (0 <= i < j < n) for i, j in case["idx"]) or not case["idx"]:
        ctx.skip("malformed (shrinker)")
    grid, step = np.linspace(start, stop, n, retstep=True)
    bars = [[float(grid[i]), float(grid[j])] for i, j in case["idx"]]
    ctx.nontrivial(len(bars) >= 3)
    pla = ctx.call(PersLandscapeApprox, dgms=[np.array(bars)], hom_deg=0, start=start, stop=stop, num_steps=n)
    vals = approx_values(ctx, pla)
    scale = abs(start) + abs(stop)
    for i, t in enumerate(grid):
        truth = L.values_at(bars, float(t))
        for k in range(len(bars)):
            got = float(vals[k][i]) if k < vals.shape[0] else 0.0
            ctx.require(close(got, truth[k], scale), "not_exact_on_grid",
                        lambda: "endpoints on nodes, depth %d at node %d: approx %r, true %r; idx=%s n=%d" % (k + 1, i, got, truth[k], case["idx"], n))


@st.composite
def s_vectorize(draw):
    fam = draw(LD.bar_family(1, 8, dup_bias=False))
    return {"fam": fam, "num_steps": draw(st.one_of(st.integers(2, 120), st.sampled_from([2, 3, 50, 500, 500]))), "lazy": draw(st.booleans()),
            "grid": draw(st.sampled_from(["default", "given", "given_wide"])), "pad": draw(st.sampled_from([0.0, 0.25, 1.0]))}


def check_vectorize(case, ctx):
    fam = case["fam"]
    bars = fam["dgms"][0]
    n = case["num_steps"]
    ple = LD.exact_from_bars(ctx, bars)
    fired = LD.shortcut_fired(ple)
    lo = min(b for b, _ in bars)
    hi = max(d for _, d in bars)
    ctx.label("grid:" + case["grid"], "shortcut_fired" if fired else None, "lazy" if case.get("lazy") else None, "num_steps=500(default)" if n == 500 else None)
    # the object handed to vectorize may be one whose landscape has not been computed yet (compute=False): vectorize is then its first use
    arg = ctx.call(PersLandscapeExact, dgms=[np.array(bars, dtype=float)], hom_deg=0, compute=False) if case.get("lazy") else ple
    if case["grid"] == "default":
        # documented default: from the first depth's critical points, i.e. min birth .. max death
        start, stop = lo, hi
        out = ctx.call(vectorize, arg, num_steps=n)
    else:
        pad = case["pad"] * (hi - lo) if case["grid"] == "given_wide" else 0.0
        start, stop = lo - pad, hi + pad
        out = ctx.call(vectorize, arg, start=start, stop=stop, num_steps=n)
    scale = LD.coord_scale(bars) + abs(start) + abs(stop)
    ctx.require(close(out.start, start, scale) and close(out.stop, stop, scale) and out.num_steps == n and out.hom_deg == ple.hom_deg,
                "grid_params", lambda: "vectorize grid (%r,%r,%r) expected (%r,%r,%r)" % (out.start, out.stop, out.num_steps, start, stop, n))
    vals = np.asarray(out.values, dtype=float)
    cps = ple.critical_pairs
    ctx.require(vals.shape == (len(cps), n), "values_shape", lambda: "values shape %s for %d depths x %d steps" % (vals.shape, len(cps), n))
    grid = np.linspace(start, stop, n)
    ctx.nontrivial(len(bars) >= 3 and not fired)
    for k, depth in enumerate(cps):
        for i, t in enumerate(grid):
            want = L.pl_eval(depth, float(t))
            ctx.require(close(vals[k][i], want, scale), "not_the_sampled_exact_landscape",
                        lambda: "depth %d at grid[%d]=%r: vectorize %r, PL value of critical pairs %r" % (k + 1, i, t, vals[k][i], want))
            if not fired:
                truth = L.true_value(bars, k, float(t))
                ctx.require(close(vals[k][i], truth, scale), "not_the_true_landscape",
                            lambda: "depth %d at grid[%d]=%r: vectorize %r, true %r; bars=%s" % (k + 1, i, t, vals[k][i], truth, bars))


@st.composite
def s_transformer(draw):
    fam = draw(LD.bar_family(1, 8, count=2))
    return {"fam": fam, "hom_deg": draw(st.sampled_from([0, 1])), "num_steps": draw(st.one_of(st.integers(2, 80), st.integers(2, 80), st.just(500))),
            "flatten": draw(st.booleans()), "fix": draw(st.sampled_from(["none", "start", "stop", "both"])),
            "pad": draw(st.sampled_from([0.0, 0.5, 1.0]))}


def check_transformer(case, ctx):
    fam = case["fam"]
    dg = [np.array(d, dtype=float) for d in fam["dgms"]]
    h = case["hom_deg"]
    bars = fam["dgms"][h]
    lo = min(b for b, _ in bars)
    hi = max(d for _, d in bars)
    pad = case["pad"] * (hi - lo)
    kw = {}
    if case["fix"] in ("start", "both"):
        kw["start"] = lo - pad
    if case["fix"] in ("stop", "both"):
        kw["stop"] = hi + pad
    ctx.label("fix:" + case["fix"], "flatten" if case["flatten"] else "2d")
    ctx.nontrivial(len(bars) >= 2)
    h_arg = np.int64(h) if case["num_steps"] % 2 == 0 else h      # the degree as a NumPy integer (np.arange loops, grid searches) in every second case
    ctx.label("hom_deg_as:" + type(h_arg).__name__)
    tr = ctx.call(PersistenceLandscaper, hom_deg=h_arg, num_steps=case["num_steps"], flatten=case["flatten"], **kw)
    out = np.asarray(ctx.call(tr.fit_transform, dg))
    pla = ctx.call(PersLandscapeApprox, dgms=dg, hom_deg=h, num_steps=case["num_steps"], start=kw.get("start", lo), stop=kw.get("stop", hi))
    want = pla.values
    if isinstance(want, np.ndarray) and want.dtype.kind in "US":
        ctx.label("empty_sentinel")
        ctx.require(out.dtype.kind in "US" or out.size == 0 or np.all(out == want), "transformer_differs", "sentinel case differs")
        return
    want = np.asarray(want, dtype=float)
    if case["flatten"]:
        want = want.flatten()
    ctx.require(out.shape == want.shape and np.array_equal(out.astype(float), want), "transformer_differs",
                lambda: "fit_transform shape %s vs PersLandscapeApprox.values shape %s; max diff %s"
                % (out.shape, want.shape, np.abs(out.astype(float) - want).max() if out.shape == want.shape else "n/a"))


@st.composite
def s_death(draw):
    fam = draw(LD.bar_family(1, 12, count=2, dup_bias=True))
    return {"fam": fam, "n_inf": draw(st.sampled_from([0, 0, 1]))}


def check_death(case, ctx):
    dg = [np.array(d, dtype=float) for d in case["fam"]["dgms"]]
    if case["n_inf"]:
        dg[0] = np.vstack([dg[0], [[dg[0][0, 0], INF]]])
    deaths = dg[0][:, 1].tolist()
    ctx.nontrivial(len(set(deaths)) >= 2)
    out = ctx.call(death_vector, dg)
    out = [float(x) for x in out]
    ctx.require(sorted(out) == sorted(deaths), "not_a_rearrangement_of_deaths", lambda: "death_vector %r vs deaths %r" % (out, deaths))
    ctx.require(all(a >= b for a, b in zip(out, out[1:])), "not_non_increasing", lambda: "death_vector %r" % (out,))
    ok = ctx.raises(NotImplementedError, death_vector, dg, 1)
    ctx.require(ok, "hom_deg_gt0_accepted", "death_vector with hom_deg=1 returned a value (documented: not defined)")


def VALID_DEFAULT(case):
    try:
        if "fam" in case and not valid_family(case["fam"], allow_diag=False, min_size=1):
            return False
        if "num_steps" in case and case["num_steps"] < 2:
            return False
        if "n" in case and (case["n"] < 3 or not case["span"] > 0 or not case["idx"]):
            return False
    except Exception:
        return False
    return True


CLAUSES = [
    Clause("half_step", s_grid_case(), check_half_step, quick=4800, thorough=64000,
           rule="|values[k][i] - true landscape(k, grid[i])| <= step/2 (+1e-9*scale) for every depth k < #bars and every node; "
                "non-trivial = >= 3 bars, >= 2 depths returned, an endpoint off-grid by more than "
                "step/4 and a node where depth 1 and 2 differ"),
    Clause("on_grid_exact", s_on_grid(), check_on_grid, quick=3000, thorough=40000,
           rule="all endpoints are grid nodes (taken from the node array itself): sampled values equal the true landscape; non-trivial = >= 3 bars"),
    Clause("vectorize", s_vectorize(), check_vectorize, quick=3000, thorough=40000,
           rule="vectorize(exact) equals the PL interpolation of the exact landscape's critical pairs at every node, and the true landscape when the "
                "exact landscape is right (hook: shortcut not fired); non-trivial = >= 3 bars and shortcut not fired"),
    Clause("transformer", s_transformer(), check_transformer, quick=2000, thorough=30000,
           rule="PersistenceLandscaper(...).fit_transform(dgms) is elementwise identical to PersLandscapeApprox(same grid).values (flattened on "
                "request), with any subset of start/stop fixed by the user; non-trivial = >= 2 bars"),
    Clause("death_vector", s_death(), check_death, quick=2000, thorough=20000,
           rule="death_vector(dgms) is a non-increasing rearrangement of the degree-0 deaths (multiset equality + order); hom_deg > 0 is rejected "
                "as documented; non-trivial = >= 2 distinct deaths"),
]
