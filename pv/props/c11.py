"""C11 - persistence images are additive, order-free and call-style independent."""
import numpy as np
from hypothesis import strategies as st

from ..core import Clause
from . import _img as I

RULE = ("Imager configurations as in C04 (all kernel / weight classes, |r| up to 0.999, resolution <= 12x12), collections of 0..5 diagrams "
        "of 0..6 points; relations between runs, no reference values needed.")
ASSUMPTIONS = [
    "additivity / permutation tolerance 1e-12 * sum|weights| per pixel (summation order changes); the call-style clauses demand exact equality",
    "loky's worker scheduling cannot be controlled from Python: the parallel clause establishes agreement for every n_jobs value and "
    "collection shape tried",
]


def bp_array(pts, skew):
    if not pts:
        return np.zeros((0, 2))
    return np.array(I.to_bd(pts) if skew else pts, dtype=float)


def wsum(spec, pts, skew):
    return sum(abs(I.weight_ref(spec["weight"], b, p)) for b, p in I.effective_bp(pts, skew))


def klabels(ctx, spec):
    ctx.label("kernel:" + I.kernel_class(spec["kernel"]), "weight:" + spec["weight"]["type"])


@st.composite
def s_additive(draw):
    spec = draw(I.imager_spec(max_res=12, max_r=0.999))
    A = draw(I.points_bp(spec["grid"], 0, 6))
    B = draw(I.points_bp(spec["grid"], 0, 6))
    n = len(A) + len(B)
    return {"spec": spec, "A": A, "B": B, "perm": draw(st.permutations(list(range(n)))), "skew": draw(st.booleans())}


def check_additive(case, ctx):
    spec, A, B, skew = case["spec"], case["A"], case["B"], case["skew"]
    U = A + B
    if sorted(case["perm"]) != list(range(len(U))):
        ctx.skip("malformed permutation (shrinker)")
    klabels(ctx, spec)
    ctx.nontrivial(len(A) >= 1 and len(B) >= 1 and len(U) >= 3)
    imgr = ctx.call(I.make_imager, spec)
    res = tuple(imgr.resolution)

    def T(pts):
        out = np.asarray(ctx.call(imgr.transform, bp_array(pts, skew), skew=skew))
        ctx.require(out.shape == res, "shape", lambda: "image shape %s, resolution %s (n points %d)" % (out.shape, res, len(pts)))
        return out

    ta, tb, tu = T(A), T(B), T(U)
    tol = 1e-12 * wsum(spec, U, skew) + 1e-300
    ctx.require(np.all(np.abs(tu - (ta + tb)) <= tol), "not_additive",
                lambda: "max |T(A u B) - T(A) - T(B)| = %.3g (tol %.3g)" % (np.abs(tu - ta - tb).max(), tol))
    tp = T([U[i] for i in case["perm"]])
    ctx.require(np.all(np.abs(tp - tu) <= tol), "order_dependent", lambda: "max diff after permutation %.3g" % np.abs(tp - tu).max())


@st.composite
def s_zero_weight(draw):
    spec = draw(I.imager_spec(max_res=10))
    g = spec["grid"]
    kind = draw(st.sampled_from(["persistence", "linear_ramp"]))
    if kind == "persistence":
        spec["weight"] = {"type": "persistence", "n": draw(st.sampled_from([1.0, 2.0, 0.5]))}
    else:
        start = draw(st.sampled_from([0.5, 1.0, 2.0])) * g["pixel"]
        spec["weight"] = {"type": "linear_ramp", "low": 0.0, "high": 1.0, "start": start, "end": start + g["pixel"]}
    A = draw(I.points_bp(g, 1, 5))
    nz = draw(st.integers(1, 4))
    s = g["pixel"]
    zs = []
    for _ in range(nz):
        b = (g["b_lo"] + draw(st.integers(-2, g["nb"] + 2)) + draw(st.sampled_from([0.0, 0.5, 0.25]))) * s
        if kind == "persistence":
            p = 0.0
        else:
            p = draw(st.sampled_from([0.0, 0.25, 0.49])) * spec["weight"]["start"]
        zs.append([draw(st.integers(0, len(A))), b, p])
    return {"spec": spec, "A": A, "zeros": zs, "skew": draw(st.booleans())}


def check_zero_weight(case, ctx):
    spec, A, skew = case["spec"], case["A"], case["skew"]
    klabels(ctx, spec)
    Z = [list(q) for q in A]
    for pos, b, p in case["zeros"]:
        if I.weight_ref(spec["weight"], b, (b + p) - b if skew else p) != 0.0:
            ctx.skip("inserted point does not have zero weight (shrinker)")
        Z.insert(min(pos, len(Z)), [b, p])
    ctx.nontrivial(len(A) >= 2)
    imgr = ctx.call(I.make_imager, spec)
    base = np.asarray(ctx.call(imgr.transform, bp_array(A, skew), skew=skew))
    with_z = np.asarray(ctx.call(imgr.transform, bp_array(Z, skew), skew=skew))
    tol = 1e-12 * wsum(spec, A, skew) + 1e-300
    ctx.require(not np.any(np.isnan(with_z)), "nan", "NaN after adding zero-weight points")
    ctx.require(np.all(np.abs(with_z - base) <= tol), "zero_weight_points_contribute",
                lambda: "max change %.3g after inserting %d zero-weight points" % (np.abs(with_z - base).max(), len(case["zeros"])))


@st.composite
def s_collection(draw):
    spec = draw(I.imager_spec(max_res=10, max_r=0.999))
    k = draw(st.integers(1, 5))
    dgms = [draw(I.points_bp(spec["grid"], 0, 6)) for _ in range(k)]
    return {"spec": spec, "dgms": dgms, "skew": draw(st.booleans()), "empty_form": draw(st.sampled_from(["zeros02", "list"]))}


def check_collection(case, ctx):
    spec, dgms, skew = case["spec"], case["dgms"], case["skew"]
    klabels(ctx, spec)
    n_empty = sum(1 for d in dgms if not d)
    ctx.label("has_empty" if n_empty else None, "k=%d" % len(dgms))
    ctx.nontrivial(len(dgms) - n_empty >= 2 and sum(len(d) for d in dgms) >= 3)
    imgr = ctx.call(I.make_imager, spec)
    res = tuple(imgr.resolution)
    arrays = [bp_array(d, skew) for d in dgms]
    singles = []
    for d, a in zip(dgms, arrays):
        arg = a if (d or case["empty_form"] == "zeros02") else []
        out = np.asarray(ctx.call(imgr.transform, arg, skew=skew))
        ctx.require(out.shape == res, "shape", lambda: "single transform shape %s vs resolution %s (%d points)" % (out.shape, res, len(d)))
        if not d:
            ctx.require(np.all(out == 0), "empty_not_zero", lambda: "empty diagram gives non-zero image")
        singles.append(out)
    coll = ctx.call(imgr.transform, arrays, skew=skew)
    ctx.require(isinstance(coll, list) and len(coll) == len(dgms), "collection_form",
                lambda: "collection of %d diagrams returned %s of length %s" % (len(dgms), type(coll).__name__, getattr(coll, "__len__", lambda: "?")()))
    for i, (one, c) in enumerate(zip(singles, coll)):
        c = np.asarray(c)
        ctx.require(c.shape == res, "shape", lambda: "collection entry %d shape %s" % (i, c.shape))
        ctx.require(np.array_equal(c, one), "collection_differs_from_single",
                    lambda: "entry %d of transform(list) differs from transform(diagram): max %.3g" % (i, np.abs(c - one).max()))


@st.composite
def s_parallel(draw):
    spec = draw(I.imager_spec(max_res=8, max_r=0.999))
    k = draw(st.integers(2, 6))
    dgms = [draw(I.points_bp(spec["grid"], 0, 5)) for _ in range(k)]
    return {"spec": spec, "dgms": dgms, "skew": draw(st.booleans()), "n_jobs": draw(st.sampled_from([1, 2, 2, 3, 4, -1]))}


def check_parallel(case, ctx):
    spec, dgms, skew = case["spec"], case["dgms"], case["skew"]
    klabels(ctx, spec)
    ctx.label("n_jobs=%d" % case["n_jobs"])
    ctx.nontrivial(case["n_jobs"] not in (1,) and len(dgms) >= 3)
    imgr = ctx.call(I.make_imager, spec)
    arrays = [bp_array(d, skew) for d in dgms]
    serial = ctx.call(imgr.transform, arrays, skew=skew)
    par = ctx.call(imgr.transform, arrays, skew=skew, n_jobs=case["n_jobs"])
    ctx.require(len(par) == len(serial), "parallel_length", lambda: "%d images in parallel, %d serial" % (len(par), len(serial)))
    for i, (a, b) in enumerate(zip(serial, par)):
        ctx.require(np.array_equal(np.asarray(a), np.asarray(b)), "parallel_differs",
                    lambda: "n_jobs=%d: image %d differs from the serial result (max %.3g)" % (case["n_jobs"], i, np.abs(np.asarray(a) - np.asarray(b)).max()))


@st.composite
def s_skew(draw):
    spec = draw(I.imager_spec(max_res=10, max_r=0.999))
    return {"spec": spec, "pts": draw(I.points_bp(spec["grid"], 1, 6))}


def check_skew(case, ctx):
    spec, pts = case["spec"], case["pts"]
    klabels(ctx, spec)
    ctx.nontrivial(len(pts) >= 2)
    imgr = ctx.call(I.make_imager, spec)
    bd = np.array(I.to_bd(pts), dtype=float)
    bp = bd.copy()
    bp[:, 1] = bd[:, 1] - bd[:, 0]
    a = np.asarray(ctx.call(imgr.transform, bd, skew=True))
    b = np.asarray(ctx.call(imgr.transform, bp, skew=False))
    ctx.require(np.array_equal(a, b), "skew_inconsistent", lambda: "birth-death vs pre-converted birth-persistence differ by %.3g" % np.abs(a - b).max())


@st.composite
def s_mass(draw):
    spec = draw(I.imager_spec(max_res=10, nonneg_only=True, max_r=0.999))
    return {"spec": spec, "pts": draw(I.points_bp(spec["grid"], 1, 6)), "skew": draw(st.booleans())}


def check_mass(case, ctx):
    spec, pts, skew = case["spec"], case["pts"], case["skew"]
    if spec["weight"]["type"] == "linear_ramp" and spec["weight"]["low"] < 0:
        ctx.skip("negative weight (shrinker)")
    klabels(ctx, spec)
    ctx.nontrivial(len(pts) >= 2)
    imgr = ctx.call(I.make_imager, spec)
    img = np.asarray(ctx.call(imgr.transform, bp_array(pts, skew), skew=skew))
    w = wsum(spec, pts, skew)
    ctx.require(not np.any(np.isnan(img)), "nan", "NaN pixel")
    ctx.require(np.all(img >= -1e-12 * w - 1e-300), "negative_pixel", lambda: "min pixel %r with non-negative weights (total weight %r)" % (img.min(), w))
    ctx.require(img.sum() <= w * (1 + 1e-9) + 1e-300, "mass_exceeds_weight", lambda: "pixel total %r > total weight %r" % (img.sum(), w))


@st.composite
def s_large(draw):
    spec = draw(I.imager_spec(max_res=8, max_r=0.999))
    return {"spec": spec, "seed": draw(st.integers(0, 2 ** 32 - 1)), "n": draw(st.sampled_from([100, 128, 129, 130, 200, 300])),
            "skew": draw(st.booleans())}


def check_large(case, ctx):
    """diagrams of 100..300 points: the image of the whole equals the sum of the images of its two halves (each <= 150 points)
    and of ten chunks, and does not depend on the order"""
    import random
    spec, skew = case["spec"], case["skew"]
    g = spec["grid"]
    s = g["pixel"]
    rng = random.Random(case["seed"])
    b0, p0 = g["b_lo"] * s, g["p_lo"] * s
    pts = [[b0 + rng.uniform(-0.5, g["nb"] + 0.5) * s, max(0.0, p0 + rng.uniform(-0.5, g["np"] + 0.5) * s)] for _ in range(case["n"])]
    klabels(ctx, spec)
    ctx.label("n=%d" % case["n"])
    ctx.nontrivial(case["n"] > 128)
    imgr = ctx.call(I.make_imager, spec)

    def T(p):
        return np.asarray(ctx.call(imgr.transform, bp_array(p, skew), skew=skew))

    whole = T(pts)
    half = case["n"] // 2
    parts = T(pts[:half]) + T(pts[half:])
    tol = 1e-11 * wsum(spec, pts, skew) + 1e-300
    ctx.require(not np.any(np.isnan(whole)), "nan", "NaN pixels for a large diagram")
    ctx.require(np.all(np.abs(whole - parts) <= tol), "not_additive_large",
                lambda: "%d points: max |T(all) - T(first half) - T(second half)| = %.3g (tol %.3g)" % (case["n"], np.abs(whole - parts).max(), tol))
    chunks = sum(T(pts[i::10]) for i in range(10))
    ctx.require(np.all(np.abs(whole - chunks) <= tol), "not_additive_large", lambda: "%d points vs ten chunks: max diff %.3g" % (case["n"], np.abs(whole - chunks).max()))
    sh = list(pts)
    rng.shuffle(sh)
    ctx.require(np.all(np.abs(T(sh) - whole) <= tol), "order_dependent_large", lambda: "shuffled large diagram differs by %.3g" % np.abs(T(sh) - whole).max())


@st.composite
def s_fine(draw):
    kern = draw(st.sampled_from(["uniform", "uniform", "axis", "corr"]))
    return {"res": [draw(st.sampled_from([255, 256, 257, 300, 64])), draw(st.sampled_from([255, 256, 257, 300, 400]))], "kern": kern,
            "pts": [[draw(st.sampled_from([0.1, 0.35, 0.5, 0.77, 0.9])), draw(st.sampled_from([0.1, 0.3, 0.5, 0.8]))] for _ in range(draw(st.integers(1, 3)))]}


def check_fine(case, ctx):
    """grids of ~256 x 256 pixels and more (> 65536 mesh nodes) with a kernel that takes the general path: pixel signs, total mass,
    and agreement of 4 x 4 block sums with the image on the 4-times coarser grid"""
    rb, rp = case["res"]
    if rb % 4 or rp % 4:
        rb, rp = rb - rb % 4 + 4, rp - rp % 4 + 4
    s = 1.0 / 256
    k = {"uniform": {"type": "uniform", "w": 9 * s, "h": 13 * s}, "axis": {"type": "axis", "vx": (6 * s) ** 2, "vy": (3 * s) ** 2, "form": "list"},
         "corr": {"type": "corr", "vx": (6 * s) ** 2, "vy": (5 * s) ** 2, "r": 0.6, "form": "array"}}[case["kern"]]
    pts = [[b * rb * s, p * rp * s] for b, p in case["pts"]]
    ctx.label("kern:" + case["kern"], "nodes>65536" if (rb + 1) * (rp + 1) > 65536 else "nodes<=65536")
    ctx.nontrivial((rb + 1) * (rp + 1) > 65536)
    fine = {"grid": {"pixel": s, "b_lo": 0, "nb": rb, "p_lo": 0, "np": rp}, "kernel": k, "weight": {"type": "callable", "name": "const", "param": 1.0}}
    coarse = dict(fine, grid={"pixel": 4 * s, "b_lo": 0, "nb": rb // 4, "p_lo": 0, "np": rp // 4})
    a = np.asarray(ctx.call(ctx.call(I.make_imager, fine).transform, np.array(pts), skew=False))
    c = np.asarray(ctx.call(ctx.call(I.make_imager, coarse).transform, np.array(pts), skew=False))
    ctx.require(a.shape == (rb, rp), "shape", lambda: "fine image shape %s, expected %s" % (a.shape, (rb, rp)))
    w = float(len(pts))
    ctx.require(np.all(a >= -1e-12 * w), "negative_pixel", lambda: "min pixel %r on a %dx%d grid" % (a.min(), rb, rp))
    ctx.require(a.sum() <= w * (1 + 1e-9), "mass_exceeds_weight", lambda: "pixel total %r > total weight %r" % (a.sum(), w))
    blocks = a.reshape(rb // 4, 4, rp // 4, 4).sum(axis=(1, 3))
    ctx.require(np.all(np.abs(blocks - c) <= 1e-9 * w), "fine_grid_inconsistent_with_coarse_grid",
                lambda: "4x4 block sums of the %dx%d image differ from the %dx%d image by %.3g" % (rb, rp, rb // 4, rp // 4, np.abs(blocks - c).max()))


def VALID_DEFAULT(case):
    if "res" in case:
        return len(case["res"]) == 2 and min(case["res"]) >= 4 and len(case["pts"]) >= 1 and all(len(q) == 2 for q in case["pts"])
    return I.valid_spec(case["spec"])


CLAUSES = [
    Clause("additive_orderfree", s_additive(), check_additive, quick=3000, thorough=40000,
           rule="T(A u B) = T(A) + T(B) and T(perm(A u B)) = T(A u B) per pixel; non-trivial = both parts non-empty and >= 3 points in the union"),
    Clause("zero_weight", s_zero_weight(), check_zero_weight, quick=1500, thorough=20000,
           rule="1..4 points of exactly zero weight (persistence 0 under 'persistence'; below start with low=0 under linear_ramp) inserted "
                "anywhere change nothing; non-trivial = >= 2 ordinary points"),
    Clause("collection_vs_single", s_collection(), check_collection, quick=2000, thorough=30000,
           rule="transform([X1..Xk])[i] == transform(Xi) exactly, empty diagrams (top level as (0,2) array or [], and inside a collection) give "
                "zeros of shape resolution; non-trivial = >= 2 non-empty diagrams and >= 3 points"),
    Clause("parallel_vs_serial", s_parallel(), check_parallel, quick=32, thorough=320,
           rule="transform(list, n_jobs=j) == transform(list) exactly for j in {1,2,3,4,-1}; budgeted by count (loky start-up); "
                "non-trivial = j != 1 and >= 3 diagrams"),
    Clause("skew_consistency", s_skew(), check_skew, quick=2000, thorough=30000,
           rule="transform(bd, skew=True) == transform(bp, skew=False) exactly, bp computed with the same subtraction; non-trivial = >= 2 points"),
    Clause("large_diagrams", s_large(), check_large, quick=160, thorough=1600,
           rule="diagrams of 100..300 points expanded from a generated seed: T(all) == T(first half) + T(second half) == sum of ten chunks == "
                "T(shuffled); non-trivial = more than 128 points"),
    Clause("fine_grids", s_fine(), check_fine, quick=48, thorough=320,
           rule="grids of 64..300 x 255..400 pixels (mostly > 65536 mesh nodes) with uniform / axis-aligned / correlated kernels (general path): "
                "no negative pixel, total <= weight, 4x4 block sums equal the image on the 4-times coarser grid; non-trivial = > 65536 nodes"),
    Clause("mass_bounds", s_mass(), check_mass, quick=2000, thorough=30000,
           rule="non-negative weights: every pixel >= -1e-12*sum w and pixel total <= sum w; non-trivial = >= 2 points"),
]
