"""C05 - mGH estimates always bracket the true modified Gromov-Hausdorff distance."""
import os
import random

import numpy as np
from hypothesis import strategies as st

from persim import gromov_hausdorff

from .. import core
from ..core import Clause
from ..oracles import mgh
from ..strategies import finite
from . import _graph as G

FUZZ = ["bracket"]
THOROUGH_SCALE = 1     # already minutes per run (exact oracles on every step / large graphs)
RULE = ("Pairs of connected simple graphs with 1..12 vertices for the exact oracle (random spanning trees biased to paths + extra edges; paths, cycles, stars, cliques, complete bipartite "
        "graphs) in random labelings; np.random.seed(s) with a generated s immediately before the call (the RNG state is an input owned by the "
        "harness); mapping_sample_size_order default or two floats in [-1, 2] given as array / list / tuple.")
ASSUMPTIONS = [
    "exact distance by branch and bound over all maps in both directions, distances from my own BFS (self-checked against itertools.product "
    "brute force on graphs with <= 4 vertices inside the exhaustive slice)",
    "graphs are passed as upper-triangular dense integer arrays, the documented form (other representations are C17's subject)",
    "for 13..18 vertices the exact value is out of reach: validity predicates only (0 <= lb <= ub, half-integrality, lb <= half the distortion "
    "of maps found by my own greedy search, ub >= half the diameter difference, isomorphic => lb == 0)",
]


def order_arg(case):
    o = case.get("order")
    if o is None:
        return {}
    form = case.get("order_form", "array")
    v = np.array(o) if form == "array" else (list(o) if form == "list" else tuple(o))
    return {"mapping_sample_size_order": v}


s_order = st.one_of(st.none(), st.none(), st.lists(st.one_of(finite(-1, 2), st.sampled_from([0.0, 0.5, 1.0, 2.0, -1.0])), min_size=2, max_size=2))


@st.composite
def s_pair(draw, min_n=1, max_n=8):
    return {"g": draw(G.connected_graph(min_n, max_n)), "h": draw(G.connected_graph(min_n, max_n)), "seed": draw(st.integers(0, 2 ** 32 - 1)),
            "order": draw(s_order), "order_form": draw(st.sampled_from(["array", "list", "tuple"]))}


@st.composite
def s_related(draw):
    g, h = draw(G.related_pair(4, 10))
    return {"g": g, "h": h, "seed": draw(st.integers(0, 2 ** 32 - 1)), "order": draw(s_order), "order_form": draw(st.sampled_from(["array", "list", "tuple"]))}


def call(ctx, case, g, h):
    # "dense or sparse", "all vertex labelings": container / sparsity format and the triangle each edge is stored in are a pure function of the
    # generated seed (upper triangle, both, or - as after relabelling an upper-triangular matrix - either)
    sd = int(case["seed"])
    fg, fh = G.FORMATS[sd % len(G.FORMATS)], G.FORMATS[(sd // 13) % len(G.FORMATS)]
    og, oh = [False, True, "permuted"][(sd // 169) % 3], [False, True, "permuted"][(sd // 507) % 3]
    if max(g["n"], h["n"]) > 40:
        fg = fh = "dense"          # cost bound only: the big-graph clauses keep the dense form
    ctx.label("fmt:" + fg, "orient:%s" % og)
    np.random.seed(case["seed"])
    out = ctx.call(gromov_hausdorff, G.adjacency(g, fg, og), G.adjacency(h, fh, oh), **order_arg(case))
    ctx.require(isinstance(out, tuple) and len(out) == 2, "return_form", lambda: "returned %r" % (out,))
    lb, ub = float(out[0]), float(out[1])
    for name, v in (("lower", lb), ("upper", ub)):
        ctx.require(v >= 0 and float(2 * v).is_integer(), "not_a_nonnegative_half_integer", lambda: "%s bound %r" % (name, v))
    ctx.require(lb <= ub, "lower_exceeds_upper", lambda: "lb=%r ub=%r" % (lb, ub))
    return lb, ub


def check_bracket(case, ctx):
    g, h = case["g"], case["h"]
    DX, DY = G.dist(g), G.dist(h)
    lb, ub = call(ctx, case, g, h)
    try:
        true = mgh.exact(DX, DY)
    except mgh.Budget:
        ctx.skip("exact oracle exceeded its node budget (highly symmetric pair)")
    dx, dy = mgh.diameter(DX), mgh.diameter(DY)
    trivial = 0.5 * max(abs(dx - dy), int(g["n"] != h["n"]))
    ctx.label("diam=%d" % max(dx, dy), "lb==ub" if lb == ub else "lb<ub", "lb>trivial" if lb > trivial else "lb==trivial",
              "order:default" if case["order"] is None else "order:given", "kind:%s/%s" % (g["kind"], h["kind"]) if False else None)
    ctx.nontrivial(g["n"] >= 3 and h["n"] >= 3 and max(dx, dy) >= 2 and true > 0)
    ctx.require(lb <= true, "lower_bound_unsound", lambda: "lb=%r > exact mGH=%r; G=%s H=%s seed=%d" % (lb, true, g, h, case["seed"]))
    ctx.require(ub >= true, "upper_bound_unsound", lambda: "ub=%r < exact mGH=%r; G=%s H=%s seed=%d order=%r" % (ub, true, g, h, case["seed"], case["order"]))


@st.composite
def s_iso(draw):
    g = draw(G.connected_graph(1, 14))
    return {"g": g, "perm": draw(st.permutations(list(range(g["n"])))), "seed": draw(st.integers(0, 2 ** 32 - 1)), "order": draw(s_order),
            "order_form": draw(st.sampled_from(["array", "list", "tuple"]))}


def check_iso(case, ctx):
    g = case["g"]
    if sorted(case["perm"]) != list(range(g["n"])):
        ctx.skip("malformed permutation (shrinker)")
    h = G.relabel(g, case["perm"])
    lb, ub = call(ctx, case, g, h)
    ctx.nontrivial(g["n"] >= 4 and case["perm"] != sorted(case["perm"]) and mgh.diameter(G.dist(g)) >= 2)
    ctx.label("ub==0" if ub == 0 else "ub>0")
    ctx.require(lb == 0, "isomorphic_lower_bound_positive", lambda: "isomorphic graphs: lb=%r; G=%s perm=%s" % (lb, g, case["perm"]))


def check_large(case, ctx):
    g, h = case["g"], case["h"]
    DX, DY = G.dist(g), G.dist(h)
    lb, ub = call(ctx, case, g, h)
    rng = random.Random(case["seed"])
    mine = 0.5 * max(mgh.greedy_upper(DX, DY, rng, tries=12), mgh.greedy_upper(DY, DX, rng, tries=12))
    dx, dy = mgh.diameter(DX), mgh.diameter(DY)
    trivial = 0.5 * max(abs(dx - dy), int(g["n"] != h["n"]))
    ctx.label("diam=%d" % max(dx, dy), "lb>trivial" if lb > trivial else "lb==trivial", "lb==ub" if lb == ub else "lb<ub")
    ctx.nontrivial(max(dx, dy) >= 3 and lb > 0)
    ctx.require(lb <= mine, "lower_bound_exceeds_a_real_distortion",
                lambda: "lb=%r > half the distortion %r of maps found by an independent search; G=%s H=%s" % (lb, mine, g, h))
    ctx.require(ub >= trivial, "upper_bound_below_trivial_bound", lambda: "ub=%r < %r" % (ub, trivial))


_TIER = os.environ.get("PV_TIER", "quick")
_BIG_EDGE = [126, 127, 128, 129, 130]
_BIG_MAX = 200 if _TIER == "thorough" else 140
# the mGH estimate costs O(diameter * n^3): a 200-vertex tree legitimately takes tens of seconds, so the watchdog that reports
# non-termination is set far above that for this property (a time-out is only ever reported for the code under test)
core.CASE_TIME_LIMIT = 1500.0


@st.composite
def s_big(draw):
    def one():
        return {"family": draw(st.sampled_from(["path", "cycle", "star", "caterpillar", "random_tree", "tree_plus", "hub_clique", "star"])),
                "n": draw(st.one_of(st.sampled_from(_BIG_EDGE), st.sampled_from(list(range(60, _BIG_MAX + 1))))),
                "seed": draw(st.integers(0, 2 ** 31))}
    return {"g": one(), "h": one(), "seed": draw(st.integers(0, 2 ** 32 - 1)), "order": None, "order_form": "array", "same": draw(st.integers(0, 4)) == 0}


def expand_big(sp):
    n, fam = sp["n"], sp["family"]
    rng = random.Random(sp["seed"])
    if fam == "path":
        edges = [[i, i + 1] for i in range(n - 1)]
    elif fam == "cycle":
        edges = [[i, (i + 1) % n] for i in range(n)]
    elif fam == "star":
        edges = [[0, i] for i in range(1, n)]
    elif fam == "hub_clique":
        # a hub with pendant vertices plus a clique hanging off the hub: diameter 2, many vertices at the same distance
        k = max(3, n // 3)
        edges = [[0, v] for v in range(1, n - k)] + [[0, n - k]] + [[a, b] for a in range(n - k, n) for b in range(a + 1, n)]
    elif fam == "caterpillar":
        spine = max(2, n // 3)
        edges = [[i, i + 1] for i in range(spine - 1)] + [[rng.randrange(spine), v] for v in range(spine, n)]
    else:
        edges = [[rng.randrange(max(0, v - 6), v), v] for v in range(1, n)]
        if fam == "tree_plus":
            edges += [[a, b] for a, b in ((rng.randrange(n), rng.randrange(n)) for _ in range(n // 4)) if a != b]
    perm = list(range(n))
    rng.shuffle(perm)
    es = sorted({(min(perm[i], perm[j]), max(perm[i], perm[j])) for i, j in edges if i != j})
    return {"n": n, "edges": [list(e) for e in es], "kind": fam}


def check_big(case, ctx):
    g = expand_big(case["g"])
    h = dict(g) if case.get("same") else expand_big(case["h"])
    if case.get("same"):
        rng = random.Random(case["seed"])
        perm = list(range(g["n"]))
        rng.shuffle(perm)
        h = G.relabel(g, perm)
    DX, DY = G.dist(g), G.dist(h)
    dx, dy = mgh.diameter(DX), mgh.diameter(DY)
    ctx.label("family:%s" % case["g"]["family"], "n>=128" if max(g["n"], h["n"]) >= 128 else "n<128",
              "diam<=127,n>=128" if (min(dx, dy) <= 127 and max(g["n"], h["n"]) >= 128) else None, "isomorphic" if case.get("same") else None)
    ctx.nontrivial(max(g["n"], h["n"]) >= 128)
    lb, ub = call(ctx, case, g, h)
    trivial = 0.5 * max(abs(dx - dy), int(g["n"] != h["n"]))
    ctx.require(ub >= trivial, "upper_bound_below_trivial_bound", lambda: "ub=%r < %r" % (ub, trivial))
    # half the distortion of ANY map is an upper bound of the one-sided minimum; lb must not exceed the two-sided max of such bounds
    rng = random.Random(case["seed"] ^ 0x77)
    mine = 0.5 * max(mgh.greedy_upper(DX, DY, rng, tries=1), mgh.greedy_upper(DY, DX, rng, tries=1))
    ctx.require(lb <= mine, "lower_bound_exceeds_a_real_distortion", lambda: "lb=%r > %r" % (lb, mine))
    if case.get("same"):
        ctx.require(lb == 0, "isomorphic_lower_bound_positive", lambda: "isomorphic graphs with %d vertices: lb=%r" % (g["n"], lb))


def edge_size_cases():
    """deterministic graphs whose diameter sits at the integer-width boundaries (the implementation stores distances in the
    smallest sufficient signed integer type, int8 up to 127): diameters 125..129, and counts of vertices at one distance around 127"""
    ns = [126, 127, 128, 129, 130]
    fams = ["path", "caterpillar"] + (["random_tree", "tree_plus"] if _TIER == "thorough" else [])
    # diameter-2 graphs with more than 127 vertices at one distance from some vertex (counts, not distances, near the int8 limit)
    for n in (127, 128, 129, 130, 151):
        for pair in ((("star", n), ("hub_clique", n)), (("hub_clique", n), ("star", 20)), (("star", n), ("star", n))):
            g = {"family": pair[0][0], "n": pair[0][1], "seed": 5}
            h = {"family": pair[1][0], "n": pair[1][1], "seed": 6}
            yield {"g": g, "h": h, "seed": n, "order": None, "order_form": "array", "same": g == h}
    for n in ns:
        for fam in fams:
            g = {"family": fam, "n": n, "seed": 1}
            for partner in ({"family": "path", "n": 100, "seed": 2}, dict(g), {"family": "star", "n": 5, "seed": 3}):
                yield {"g": g, "h": partner, "seed": n, "order": None, "order_form": "array", "same": partner == g}


def _family_graph(kind, n):
    if kind == "cycle":
        return {"n": n, "edges": [[min(i, (i + 1) % n), max(i, (i + 1) % n)] for i in range(n)] if n >= 3 else [[0, 1]][: n - 1], "kind": "cycle"}
    if kind == "path":
        return {"n": n, "edges": [[i, i + 1] for i in range(n - 1)], "kind": "path"}
    return {"n": n, "edges": [[0, i] for i in range(1, n)], "kind": "star"}


def family_cases():
    """all pairs of cycles, paths and stars with 3..25 vertices (the regular families for which natural maps are known)"""
    kinds = ["cycle", "path", "star"]
    for ka in kinds:
        for kb in kinds:
            if kinds.index(kb) < kinds.index(ka):
                continue
            for n in range(3, 26):
                for m in range(n, 26):
                    yield {"g": {"kind": ka, "n": n}, "h": {"kind": kb, "n": m}, "seed": 7 * n + m, "order": None, "order_form": "array"}


def _scaling_distortion(DX, DY):
    """distortion of the map i -> floor(i * m / n) (a real map, so half of it bounds the one-sided minimum from above)"""
    n, m = len(DX), len(DY)
    f = [min(m - 1, (i * m) // n) for i in range(n)]
    return max(abs(DX[a][b] - DY[f[a]][f[b]]) for a in range(n) for b in range(n))


def check_family(case, ctx):
    g = _family_graph(case["g"]["kind"], case["g"]["n"])
    h = _family_graph(case["h"]["kind"], case["h"]["n"])
    DX, DY = G.dist(g), G.dist(h)
    ctx.label("%s/%s" % (case["g"]["kind"], case["h"]["kind"]))
    ctx.nontrivial(g["n"] >= 8 and (g["n"], case["g"]["kind"]) != (h["n"], case["h"]["kind"]))
    lb, ub = call(ctx, case, g, h)
    rng = random.Random(case["seed"])
    upper = 0.5 * max(min(_scaling_distortion(DX, DY), mgh.greedy_upper(DX, DY, rng, tries=6)),
                      min(_scaling_distortion(DY, DX), mgh.greedy_upper(DY, DX, rng, tries=6)))
    ctx.require(lb <= upper, "lower_bound_exceeds_a_real_distortion",
                lambda: "%s_%d vs %s_%d: lb=%r > %r = half the distortion of explicit maps in both directions (ub=%r)"
                % (case["g"]["kind"], g["n"], case["h"]["kind"], h["n"], lb, upper, ub))
    if max(g["n"], h["n"]) <= 12:
        try:
            true = mgh.exact(DX, DY)
        except mgh.Budget:
            return
        ctx.require(lb <= true <= ub, "does_not_bracket", lambda: "%s_%d vs %s_%d: (%r, %r) vs exact %r" % (case["g"]["kind"], g["n"], case["h"]["kind"], h["n"], lb, ub, true))
    if (case["g"]["kind"], g["n"]) == (case["h"]["kind"], h["n"]):
        ctx.require(lb == 0, "isomorphic_lower_bound_positive", lambda: "identical %s_%d: lb=%r" % (case["g"]["kind"], g["n"], lb))


_ENUM = None


def slice_cases():
    global _ENUM
    if _ENUM is None:
        _ENUM = G.all_connected_labelled_graphs(4)
    for i, g in enumerate(_ENUM):
        for j, h in enumerate(_ENUM):
            for s in (0, 1, 12345):
                yield {"g": g, "h": h, "seed": s, "order": None, "order_form": "array"}


def check_slice(case, ctx):
    g, h = case["g"], case["h"]
    DX, DY = G.dist(g), G.dist(h)
    bb = 0.5 * max(mgh.min_distortion(DX, DY), mgh.min_distortion(DY, DX))
    bf = 0.5 * max(mgh.min_distortion_brute(DX, DY), mgh.min_distortion_brute(DY, DX))
    if bb != bf:
        raise RuntimeError("branch-and-bound oracle %r disagrees with brute force %r on %s %s" % (bb, bf, g, h))
    check_bracket(case, ctx)


def VALID_DEFAULT(case):
    if not G.valid_graph(case["g"]) or ("h" in case and not G.valid_graph(case["h"])):
        return False
    if case.get("order") is not None and len(case["order"]) != 2:
        return False
    if "perm" in case and sorted(case["perm"]) != list(range(case["g"]["n"])):
        return False
    return True


CLAUSES = [
    Clause("bracket", s_pair(1, 12), check_bracket, quick=8000, thorough=120000, fuzz=True, floors={"lb>trivial": 0.02},
           rule="1..12 vertices each: lb <= exact mGH <= ub, both non-negative half-integers; non-trivial = both graphs >= 3 vertices, max "
                "diameter >= 2 and exact distance > 0"),
    Clause("related_pairs", s_related(), check_bracket, quick=4000, thorough=80000,
           rule="G (4..10 vertices) against a relabelled copy of G after 1..3 local edits (move / add / delete a leaf, add a chord, subdivide an "
                "edge): similar graphs whose diameters differ by 0..2, true distance mostly 0.5..1.5; same oracle and non-triviality rule as bracket"),
    Clause("isomorphic", s_iso(), check_iso, quick=4000, thorough=60000,
           rule="a graph against a relabelled copy of itself (1..14 vertices): lb == 0 for every labeling, RNG state and sample size; "
                "non-trivial = >= 4 vertices, diameter >= 2, non-identity relabelling"),
    Clause("large_validity", s_pair(13, 18), check_large, quick=800, thorough=8000,
           rule="13..18 vertices (exact value out of reach): 0 <= lb <= ub, half-integrality, lb <= half the distortion of maps found by an "
                "independent greedy search in both directions, ub >= trivial bound; non-trivial = max diameter >= 3 and lb > 0"),
    Clause("big_graphs", s_big(), check_big, quick=16, thorough=640,
           rule="60..140 vertices in the quick tier, 60..200 in the thorough tier (sizes around 127/128 favoured: the implementation picks the smallest integer dtype that holds the "
                "distances): paths, cycles, stars, caterpillars, random trees (+ chords), expanded from a generated seed; no exception, 0 <= lb <= ub, "
                "half-integrality, ub >= trivial bound, lb <= half the distortion of a greedy map, relabelled copies get lb == 0; non-trivial = >= 128 vertices"),
    Clause("edge_sizes", cases=edge_size_cases, check=check_big,
           rule="DETERMINISTIC slice: stars and hub+clique graphs with 127..151 vertices (more than 127 vertices at one distance); paths and caterpillars (thorough: also random trees with and without chords) with 126..130 "
                "vertices, i.e. diameters at the int8 / int16 boundary, against a 100-path, a relabelled copy of themselves and a 5-star; "
                "same validity predicates as big_graphs"),
    Clause("family_slice", cases=family_cases, check=check_family,
           rule="EXHAUSTIVE over the regular families: all pairs of cycles, paths and stars with 3..25 vertices (1656 pairs): lb <= ub, "
                "half-integrality, lb <= half the distortion of the scaling map i -> floor(i*m/n) and of greedy maps in both directions, "
                "exact bracket when both graphs have <= 12 vertices; non-trivial = >= 8 vertices and different graphs"),
    Clause("small_slice", cases=slice_cases, check=check_slice,
           rule="EXHAUSTIVE: all 44 x 44 ordered pairs of connected labelled graphs on <= 4 vertices x 3 RNG seeds; oracle cross-checked against "
                "itertools.product brute force on every pair"),
]
