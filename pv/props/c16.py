"""C16 - persistent entropy is the Shannon entropy of normalised bar lengths."""
import math

import numpy as np
from hypothesis import strategies as st

from persim.persistent_entropy import persistent_entropy

from ..core import Clause
from ..strategies import dict_of, diagram_family, finite, permutation_of

FUZZ = ["inf_bars"]
RULE = ("Barcodes are generated on a shared integer lattice (exact ties, scales 10^-6..10^6), as ulp-perturbed "
        "lattice points and as arbitrary floats; oracle = direct float64 evaluation of -sum p_i log p_i.")
ASSUMPTIONS = ["n = 1 with normalize=True (0/0) is outside the statement and is not generated",
               "inputs are numpy arrays or lists of numpy arrays, the documented forms"]

INF = float("inf")


def ref_entropy(bars, normalize=False):
    ls = [d - b for b, d in bars]
    L = math.fsum(ls)
    e = -math.fsum((x / L) * math.log(x / L) for x in ls)
    if normalize:
        e = e / math.log(len(ls))
    return e


def tol(n):
    return 1e-12 + 1e-13 * n


def positive_barcodes(count=1, min_size=1, max_size=40):
    return diagram_family(count=count, min_size=min_size, max_size=max_size, allow_diag=False)


def _nontrivial(bars):
    ls = {d - b for b, d in bars}
    return len(bars) >= 3 and len(ls) >= 2


# -- value ------------------------------------------------------------------------------

s_value = dict_of({
    "fam": positive_barcodes(),
    "normalize": st.booleans(),
})


def check_value(case, ctx):
    bars = case["fam"]["dgms"][0]
    n = len(bars)
    normalize = case["normalize"] and n >= 2
    ctx.label("mode:" + case["fam"]["mode"], "normalize" if normalize else "plain",
              "n=1" if n == 1 else ("n<=5" if n <= 5 else "n>5"))
    ctx.nontrivial(_nontrivial(bars))
    out = ctx.call(persistent_entropy, np.array(bars, dtype=float), normalize=normalize)
    ctx.require(isinstance(out, np.ndarray) and out.shape == (1,), "shape", lambda: "got %r" % (out,))
    e = float(out[0])
    ref = ref_entropy(bars, normalize)
    ctx.require(abs(e - ref) <= tol(n), "value", lambda: "entropy %r, Shannon formula %r" % (e, ref))
    if normalize:
        ctx.require(-tol(n) <= e <= 1 + tol(n), "normalized_range", lambda: "normalised entropy %r" % e)
    else:
        ctx.require(-tol(n) <= e <= math.log(n) + tol(n), "range", lambda: "entropy %r not in [0, log %d]" % (e, n))
    if len({d - b for b, d in bars}) == 1:
        ctx.label("equal_lengths")
        target = 1.0 if normalize else math.log(n)
        ctx.require(abs(e - target) <= tol(n), "equal_lengths", lambda: "equal bars: %r vs %r" % (e, target))


# -- equal lengths (constructed, so the class is not left to chance) ---------------------

s_equal = dict_of({
    "births": st.lists(st.integers(-50, 50), min_size=1, max_size=30),
    "length": st.integers(1, 40),
    "k": st.sampled_from([0, 1, -1, 3, -3, 10, -10]),
})


def check_equal(case, ctx):
    s = 2.0 ** case["k"]   # power of two: every length is exactly the same float
    bars = [[b * s, (b + case["length"]) * s] for b in case["births"]]
    n = len(bars)
    ctx.nontrivial(n >= 3 and len(set(case["births"])) >= 2)
    e = float(ctx.call(persistent_entropy, np.array(bars))[0])
    ctx.require(abs(e - math.log(n)) <= tol(n), "equal_lengths", lambda: "n=%d equal bars: %r vs log n=%r" % (n, e, math.log(n)))


# -- invariances --------------------------------------------------------------------------

@st.composite
def s_invariance(draw):
    # integer bars so that translation by an integer is exact in float64
    n = draw(st.integers(1, 25))
    bars = []
    for _ in range(n):
        b = draw(st.integers(-1000, 1000))
        bars.append([b, b + draw(st.integers(1, 500))])
    return {"bars": bars, "perm": draw(permutation_of(n)), "shift": draw(st.integers(-10**6, 10**6)),
            "scale": draw(st.one_of(st.sampled_from([0.5, 2.0, 1e-3, 1e3, 3.0, 1 / 3.0]), finite(1e-6, 1e6)))}


def check_invariance(case, ctx):
    bars = case["bars"]
    n = len(bars)
    ctx.nontrivial(_nontrivial(bars) and case["perm"] != sorted(case["perm"]))
    base = float(ctx.call(persistent_entropy, np.array(bars, dtype=float))[0])
    perm = [bars[i] for i in case["perm"]]
    e = float(ctx.call(persistent_entropy, np.array(perm, dtype=float))[0])
    ctx.require(abs(e - base) <= tol(n), "reorder", lambda: "%r vs %r" % (e, base))
    c = case["shift"]
    e = float(ctx.call(persistent_entropy, np.array([[b + c, d + c] for b, d in bars], dtype=float))[0])
    ctx.require(abs(e - base) <= tol(n), "translate", lambda: "shift %r: %r vs %r" % (c, e, base))
    lam = case["scale"]
    e = float(ctx.call(persistent_entropy, np.array([[b * lam, d * lam] for b, d in bars], dtype=float))[0])
    # (d*lam - b*lam) re-rounds each length: relative error <= (|b|+|d|)/(d-b) * 2^-52 per bar
    cond = max((abs(b) + abs(d)) / float(d - b) for b, d in bars)
    ctx.require(abs(e - base) <= tol(n) + 1e-14 * cond * (1 + math.log(n + 1)), "rescale", lambda: "scale %r: %r vs %r" % (lam, e, base))


# -- list input ----------------------------------------------------------------------------

s_list = st.integers(1, 5).flatmap(lambda k: dict_of({
    "fam": positive_barcodes(count=k, min_size=2, max_size=12), "normalize": st.booleans()}))


def check_list(case, ctx):
    dgms = case["fam"]["dgms"]
    ctx.nontrivial(len(dgms) >= 2 and any(_nontrivial(b) for b in dgms))
    ctx.label("k=%d" % len(dgms))
    out = ctx.call(persistent_entropy, [np.array(b, dtype=float) for b in dgms], normalize=case["normalize"])
    ctx.require(isinstance(out, np.ndarray) and out.shape == (len(dgms),), "vector_shape", lambda: "got %r" % (out,))
    for i, b in enumerate(dgms):
        ref = ref_entropy(b, case["normalize"])
        ctx.require(abs(float(out[i]) - ref) <= tol(len(b)), "vector_entry", lambda: "entry %d: %r vs %r" % (i, out[i], ref))


# -- infinite bars ------------------------------------------------------------------------

@st.composite
def s_inf(draw):
    fam = draw(positive_barcodes(min_size=1, max_size=15))
    bars = fam["dgms"][0]
    k = draw(st.integers(1, 3))
    pos = [draw(st.integers(0, len(bars))) for _ in range(k)]
    births = [draw(st.sampled_from([b for b, _ in bars])) for _ in range(k)]
    top = max(d for _, d in bars)
    span = max(1e-6, top - min(b for b, _ in bars))
    val = top + draw(st.sampled_from([1.0, 0.5, 2.0, 10.0])) * span
    if draw(st.integers(0, 3)) == 0:
        # a barcode on negative filtration values capped at exactly 0 (int or float): a legitimate "supplied value"
        shift = top + draw(st.sampled_from([1.0, 0.5, 3.0])) * span
        bars = [[b - shift, d - shift] for b, d in bars]
        births = [b - shift for b in births]
        val = draw(st.sampled_from([0.0, 0]))
    return {"bars": bars, "inf_births": births, "inf_pos": pos, "val_inf": val,
            "normalize": draw(st.booleans()), "mode": draw(st.sampled_from(["drop", "default", "replace", "missing_val"]))}


def check_inf(case, ctx):
    finite_bars = case["bars"]
    full = [list(b) for b in finite_bars]
    for p, b in zip(case["inf_pos"], case["inf_births"]):
        full.insert(min(p, len(full)), [b, INF])
    arr = np.array(full, dtype=float)
    mode = case["mode"]
    ctx.label("inf:" + mode)
    ctx.nontrivial(len(finite_bars) >= 2)
    if mode == "missing_val":
        ok = ctx.raises(Exception, persistent_entropy, arr, keep_inf=True)
        ctx.require(ok, "keep_inf_without_value_accepted", "keep_inf=True without val_inf returned a number")
        return
    before = arr.copy()

    def dropped(tag):
        normalize = case["normalize"] and len(finite_bars) >= 2
        kw = {"keep_inf": False} if mode == "drop" else {}
        e = float(ctx.call(persistent_entropy, arr, normalize=normalize, **kw)[0])
        ref = ref_entropy(finite_bars, normalize)
        ctx.require(abs(e - ref) <= tol(len(full)), "inf_dropped", lambda: "%s: %r vs entropy of finite bars %r" % (tag, e, ref))

    def replaced(tag, v):
        repl = [[b, (v if d == INF else d)] for b, d in full]
        normalize = case["normalize"] and len(repl) >= 2
        e = float(ctx.call(persistent_entropy, arr, keep_inf=True, val_inf=v, normalize=normalize)[0])
        ref = ref_entropy(repl, normalize)
        ctx.require(abs(e - ref) <= tol(len(full)), "inf_replaced", lambda: "%s: %r vs entropy with inf->%r: %r" % (tag, e, v, ref))

    # the same array is used for a sequence of requests: each must be answered "as requested"
    v = case["val_inf"]
    if mode in ("drop", "default"):
        dropped("first call")
        replaced("second call on the same array", v)
        dropped("third call on the same array")
    else:
        replaced("first call", v)
        dropped("second call on the same array")
        replaced("third call on the same array", v + 1.0)
    ctx.require(np.array_equal(arr, before), "input_modified", "the barcode array passed in was modified (infinite deaths overwritten)")


# -- rejection ----------------------------------------------------------------------------

@st.composite
def s_reject(draw):
    fam = draw(diagram_family(count=1, min_size=0, max_size=10, allow_diag=False))
    bars = fam["dgms"][0]
    kind = draw(st.sampled_from(["zero", "negative"]))
    b = draw(st.integers(-20, 20)) * 1.0
    bad = [b, b] if kind == "zero" else [b, b - draw(st.sampled_from([1.0, 0.5, 1e-9, 100.0]))]
    pos = draw(st.integers(0, len(bars)))
    return {"bars": bars[:pos] + [bad] + bars[pos:], "kind": kind, "as_list": draw(st.booleans()),
            "normalize": draw(st.booleans())}


def check_reject(case, ctx):
    arr = np.array(case["bars"], dtype=float)
    ctx.label(case["kind"])
    ctx.nontrivial(len(case["bars"]) >= 2)
    arg = [arr] if case["as_list"] else arr
    ok = ctx.raises(Exception, persistent_entropy, arg, normalize=case["normalize"])
    ctx.require(ok, "nonpositive_bar_accepted", "a bar of non-positive length produced a number")


@st.composite
def s_intdtype(draw):
    """integer-valued barcodes in the integer dtypes users hold them in (8-bit image filtrations give uint8); one bar may be reversed"""
    n = draw(st.integers(1, 6))
    lo = draw(st.sampled_from([0, 0, -100, -20000, 2 ** 60, -(2 ** 61)]))      # the last two: 64-bit integers beyond 2**53 (e.g. nanosecond time stamps)
    span = {0: 250, -100: 200, -20000: 40000, 2 ** 60: 1000, -(2 ** 61): 1000}[lo]
    bars = []
    for _ in range(n):
        b = lo + draw(st.integers(0, span - 2))
        bars.append([b, draw(st.integers(b + 1, lo + span))])
    rev = draw(st.sampled_from([None, None, 0]))
    if rev is not None:
        k = draw(st.integers(0, n - 1))
        bars[k] = [bars[k][1], bars[k][0]]
    return {"ibars": bars, "reversed": rev is not None, "normalize": draw(st.booleans())}


def check_intdtype(case, ctx):
    bars = case["ibars"]
    flat = [v for q in bars for v in q]
    dt = next(t for t in (np.uint8, np.int8, np.uint16, np.int16, np.int32, np.int64) if np.iinfo(t).min <= min(flat) and max(flat) <= np.iinfo(t).max)
    arr = np.array(bars, dtype=dt)
    n = len(bars)
    normalize = case["normalize"] and n >= 2
    ctx.label("dtype:" + np.dtype(dt).name, "reversed_bar" if case["reversed"] else "valid", "n=%d" % n)
    lengths_fit = all(np.iinfo(dt).min <= d - b <= np.iinfo(dt).max for b, d in bars)
    ctx.nontrivial(case["reversed"] or not lengths_fit)
    if case["reversed"]:
        ok = ctx.raises(Exception, persistent_entropy, arr, normalize=normalize)
        ctx.require(ok, "nonpositive_bar_accepted", lambda: "a reversed bar in a %s barcode %s produced a number" % (np.dtype(dt).name, bars))
        return
    out = ctx.call(persistent_entropy, arr, normalize=normalize)
    e = float(out[0])
    ref = ref_entropy([[0.0, float(d - b)] for b, d in bars], normalize)         # lengths taken exactly, in integer arithmetic
    ctx.require(abs(e - ref) <= tol(n), "value_integer_dtype", lambda: "entropy %r, Shannon formula %r; barcode %s as %s" % (e, ref, bars, np.dtype(dt).name))


CLAUSES = [
    Clause("value", s_value, check_value, quick=6000, thorough=120000,
           rule="1..40 bars; non-trivial = >=3 bars with >=2 distinct lengths"),
    Clause("equal_lengths", s_equal, check_equal, quick=2000, thorough=30000,
           rule="n bars of exactly equal float length; non-trivial = n>=3 and >=2 distinct births"),
    Clause("invariance", s_invariance(), check_invariance, quick=4000, thorough=80000,
           rule="integer bars, permutation + integer shift + positive rescale; non-trivial = >=3 bars, >=2 lengths, non-identity permutation"),
    Clause("list_input", s_list, check_list, quick=3000, thorough=50000,
           rule="list of 1..5 barcodes; non-trivial = >=2 barcodes, one with >=3 bars / 2 lengths"),
    Clause("inf_bars", s_inf(), check_inf, quick=3000, thorough=60000,
           rule="1..3 infinite bars inserted at generated positions, four flag settings; non-trivial = >=2 finite bars"),
    Clause("integer_dtypes", s_intdtype(), check_intdtype, quick=3000, thorough=40000,
           rule="integer barcodes stored in the narrowest integer dtype that holds them (uint8, int8, uint16, int16, int32): the Shannon value, and a reversed "
                "bar must raise (in an unsigned dtype its length wraps to a positive number); non-trivial = a reversed bar, or a length outside the dtype's range"),
    Clause("rejects_nonpositive", s_reject(), check_reject, quick=2000, thorough=30000,
           rule="a zero- or negative-length bar inserted at any position; non-trivial = >=2 bars"),
]


def _valid_intdtype(case):
    try:
        bars = case["ibars"]
        if not bars or any(len(q) != 2 or not all(isinstance(v, int) for v in q) or q[0] == q[1] for q in bars):
            return False
        nrev = sum(1 for b, d in bars if d < b)
        return nrev == (1 if case["reversed"] else 0)
    except Exception:
        return False


VALID = {"integer_dtypes": _valid_intdtype}
