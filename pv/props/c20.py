"""C20 - plots draw exactly the data and matchings they are given."""
import math
import warnings

import matplotlib
matplotlib.use("Agg")
import matplotlib.pyplot as plt
import numpy as np
from hypothesis import strategies as st
from matplotlib.collections import PathCollection

from persim import PersLandscapeApprox, PersLandscapeExact, bottleneck, bottleneck_matching, plot_diagrams, wasserstein, wasserstein_matching
from persim.landscapes.visuals import plot_landscape_simple

from ..core import Clause
from ..strategies import diagram_family, valid_family
from . import _land as LD

RULE = ("1..3 diagrams of 1..8 points as (n,2) float arrays (the form plot_diagrams requires), optional infinite deaths, generated option "
        "combinations (plot_only, lifetime, diagonal, legend, labels str/list/None, title, xy_range), drawn either on pyplot's current axes or on "
        "one of two subplots that is NOT current; matchings taken from bottleneck / wasserstein (matching=True) on generated pairs incl. one "
        "empty (0,2) diagram. Artists are read back from an Agg figure.")
ASSUMPTIONS = [
    "with an explicit xy_range the x-limits must equal it; the y-limits must equal it except in lifetime mode, where the documented behaviour "
    "re-anchors the y-axis just below zero",
    "np.array([])-shaped empties are not (n,2) arrays and are not passed to plotting functions",
    "depth_range is passed as a range (a form the code accepts)",
    "scatter offsets are compared to the float32 copy of the data (the statement says 'to single precision'); diagrams whose finite values "
    "span less than 1e-3 of their magnitude (a few float32 ulps) are skipped and counted",
]

INF = float("inf")


def new_axes(mode):
    """-> (fig, target axes or None, other axes list).  mode: 'current' (ax=None), 'given_current', 'given_not_current'"""
    plt.close("all")
    plt.style.use("default")
    fig, (a1, a2) = plt.subplots(1, 2)
    if mode == "current":
        plt.sca(a1)
        return fig, None, a1, [a2]
    if mode == "given_current":
        plt.sca(a1)
        return fig, a1, a1, [a2]
    plt.sca(a2)          # a2 is pyplot's current axes, we hand a1 to the function
    return fig, a1, a1, [a2]


def artists(ax):
    colls = [c for c in ax.collections if isinstance(c, PathCollection)]
    return colls, list(ax.lines)


def untouched(ctx, others):
    for o in others:
        colls, lines = artists(o)
        ctx.require(not colls and not lines and not o.get_title() and o.get_legend() is None, "drew_on_other_axes",
                    lambda: "artists on an axes that was not given: %d collections, %d lines (first line data %s)"
                    % (len(colls), len(lines), [l.get_xydata().tolist() for l in lines[:1]]))


# --------------------------------------------------------------------------------------
# plot_diagrams

@st.composite
def s_diagrams(draw):
    k = draw(st.integers(1, 3))
    fam = draw(diagram_family(count=k, min_size=1, max_size=8, allow_diag=True, scales=False, modes=("lattice", "float")))
    dgms = fam["dgms"]
    n_inf = [draw(st.sampled_from([0, 0, 1, 2])) for _ in range(k)]
    opts = {
        "plot_only": draw(st.one_of(st.none(), st.lists(st.integers(0, k - 1), min_size=1, max_size=k, unique=True))),
        "lifetime": draw(st.booleans()), "diagonal": draw(st.booleans()), "legend": draw(st.booleans()),
        "labels": draw(st.sampled_from(["none", "none", "str", "list"])),
        "title": draw(st.sampled_from([None, "a title", "T"])),
        "xy_range": draw(st.sampled_from([None, None, None, [-1.0, 12.0, -2.0, 15.0], [0.0, 5.0, 0.0, 5.0], [-200.0, 200.0, -150.0, 300.0]])),
        "single_array": k == 1 and draw(st.booleans()),
    }
    return {"fam": fam, "n_inf": n_inf, "opts": opts, "axes": draw(st.sampled_from(["current", "given_current", "given_not_current"])),
            "dtype": draw(st.sampled_from(["float64", "float64", "float32"])), "twice": draw(st.booleans()),
            # where the infinite bars are born: at births of finite points, at the largest finite death, or after every finite death
            "inf_birth": draw(st.sampled_from(["existing", "existing", "at_max_death", "after_all_deaths", "before_all_births"])),
            # a diagram that consists of its infinite bars only (the H0 diagram [[0, inf]] of a connected point cloud)
            "only_inf": draw(st.integers(0, 5)) == 0}


def _inf_birth(case, d, i, all_dgms):
    mode = case.get("inf_birth", "existing")
    vals = [v for dd in all_dgms for p in dd for v in p]
    lo, hi = min(vals), max(vals)
    if mode == "at_max_death":
        return hi
    if mode == "after_all_deaths":
        return hi + 0.5 * (hi - lo) + 1.0 + i
    if mode == "before_all_births":
        return lo - 0.25 * (hi - lo) - 1.0 - i
    return d[i % len(d)][0]


def check_diagrams(case, ctx):
    """the same arrays may be plotted twice (fresh axes each time): the second picture must be as exact as the first"""
    fam, o = case["fam"], case["opts"]
    dt = np.float32 if case.get("dtype") == "float32" else np.float64
    k = len(fam["dgms"])
    if len(case["n_inf"]) != k:
        ctx.skip("malformed (shrinker)")
    user_arrays = []
    for d, ni in zip(fam["dgms"], case["n_inf"]):
        rows = ([] if (case.get("only_inf") and ni >= 1) else [list(p) for p in d]) + [[_inf_birth(case, d, i, fam["dgms"]), INF] for i in range(ni)]
        user_arrays.append(np.array(rows, dtype=dt))
    pristine = [a.copy() for a in user_arrays]
    ctx.label("dtype:" + str(np.dtype(dt)), "twice" if case.get("twice") else "once")
    for pass_no in range(2 if case.get("twice") else 1):
        _check_diagrams_once(case, ctx, user_arrays, pristine, pass_no)


def _check_diagrams_once(case, ctx, user_arrays, pristine, pass_no):
    fam, o = case["fam"], case["opts"]
    k = len(fam["dgms"])
    dgms = pristine            # expectations come from the values as first handed over
    sel = o["plot_only"] if o["plot_only"] else list(range(k))
    if any(i >= k for i in sel):
        ctx.skip("plot_only index out of range (shrinker)")
    labels = None
    want_labels = ["$H_{%d}$" % i for i in range(k)]
    if o["labels"] == "str":
        labels = "lab"
        want_labels = ["lab"] * k
    elif o["labels"] == "list":
        labels = ["L%d" % i for i in range(k)]
        want_labels = list(labels)
    want_labels = [want_labels[i] for i in sel]
    shown = [dgms[i] for i in sel]
    has_inf = any(np.isinf(d).any() for d in shown)
    f32 = np.concatenate([d.astype(np.float32).ravel() for d in shown])
    f32 = f32[np.isfinite(f32)].astype(float)
    span = float(f32.max() - f32.min())
    if np.any((np.abs(f32) > 0) & (np.abs(f32) < 1e-30)):
        ctx.skip("coordinates in the float32 subnormal range (not representable in single precision)")
    if 0 < span < 1e-3 * float(np.max(np.abs(f32))):
        # the plot works on float32 copies ("to single precision"): a diagram whose whole extent is a few float32 ulps
        # cannot be laid out meaningfully and is outside what the statement can promise
        ctx.skip("extent of the finite values not resolvable in single precision")
    fig, ax_arg, ax, others = new_axes(case["axes"])
    try:
        kw = dict(plot_only=o["plot_only"], title=o["title"], xy_range=o["xy_range"], labels=labels, diagonal=o["diagonal"],
                  lifetime=o["lifetime"], legend=o["legend"], ax=ax_arg)
        arg = user_arrays[0] if (o["single_array"] and k == 1) else list(user_arrays)
        with warnings.catch_warnings():
            warnings.simplefilter("ignore")
            ctx.call(plot_diagrams, arg, **kw)
        if pass_no == 0:
            ctx.label("axes:" + case["axes"], "inf" if has_inf else "finite", "all_finite_values_coincide" if span == 0 else None, ("inf_birth:" + case.get("inf_birth", "existing")) if has_inf else None, "lifetime" if o["lifetime"] else "birth_death",
                      "xy_range" if o["xy_range"] else "auto_range", "plot_only" if o["plot_only"] else None)
            ctx.nontrivial(len(shown) >= 2 and min(len(d) for d in shown) >= 3)
        untouched(ctx, others)
        colls, lines = artists(ax)
        ctx.require(len(colls) == len(shown), "collection_count", lambda: "%d scatter collections for %d plotted diagrams" % (len(colls), len(shown)))
        inf_lines = [l for l in lines if l.get_label() == r"$\infty$"]
        xlim, ylim = ax.get_xlim(), ax.get_ylim()
        b_inf = None
        if has_inf:
            ctx.require(len(inf_lines) == 1, "infinity_line_missing", lambda: "%d lines labelled infinity" % len(inf_lines))
            ys = inf_lines[0].get_ydata()
            ctx.require(len(ys) == 2 and ys[0] == ys[1], "infinity_line_not_horizontal", lambda: "infinity line ydata %r" % (ys,))
            b_inf = float(ys[0])
            xs_inf = inf_lines[0].get_xdata()
            ctx.require(float(xs_inf[-1]) > float(xs_inf[0]), "infinity_line_has_no_length",
                        lambda: "the infinity line runs from x=%r to x=%r (a single dot at height %r)" % (xs_inf[0], xs_inf[-1], b_inf))
            ctx.require(ylim[0] < b_inf < ylim[1], "infinity_line_outside_axes", lambda: "infinity line at %r, y-limits %r" % (b_inf, ylim))
        else:
            ctx.require(len(inf_lines) == 0, "spurious_infinity_line", "an infinity line although no point has infinite death")
        for c, d, lab in zip(colls, shown, want_labels):
            off = np.asarray(c.get_offsets(), dtype=float)
            exp = d.astype(np.float32).astype(float)
            if o["lifetime"]:
                e32 = d.astype(np.float32)
                e32 = np.column_stack([e32[:, 0], e32[:, 1] - e32[:, 0]])
                exp = e32.astype(float)
            ctx.require(off.shape == exp.shape, "offset_shape", lambda: "offsets shape %s for a diagram of shape %s" % (off.shape, exp.shape))
            fin = np.isfinite(exp[:, 1])
            sc = max(1.0, float(np.max(np.abs(exp[np.isfinite(exp)]))) if np.isfinite(exp).any() else 1.0)
            ok = np.all(np.abs(off[:, 0] - exp[:, 0]) <= 1e-6 * sc) and np.all(np.abs(off[fin, 1] - exp[fin, 1]) <= 1e-6 * sc)
            ctx.require(ok, "offsets_differ_from_data", lambda: "scatter offsets %s vs data %s (lifetime=%s)" % (off.tolist(), exp.tolist(), o["lifetime"]))
            if (~fin).any():
                ctx.require(np.all(np.abs(off[~fin, 1] - b_inf) <= 1e-6 * max(1.0, abs(b_inf))), "infinite_points_not_on_infinity_line",
                            lambda: "points with infinite death drawn at %s, infinity line at %r" % (off[~fin, 1].tolist(), b_inf))
            ctx.require(c.get_label() == lab, "collection_label", lambda: "label %r, expected %r" % (c.get_label(), lab))
            # limits
            if o["xy_range"] is None:
                tol = 1e-6 * sc
                inx = np.all(off[:, 0] >= xlim[0] - tol) and np.all(off[:, 0] <= xlim[1] + tol)
                iny = np.all(off[:, 1] >= ylim[0] - tol) and np.all(off[:, 1] <= ylim[1] + tol)
                ctx.require(inx and iny, "points_outside_limits", lambda: "offsets %s outside limits x%r y%r" % (off.tolist(), xlim, ylim))
        if o["xy_range"] is not None:
            r = o["xy_range"]
            ctx.require(tuple(xlim) == (r[0], r[1]), "xy_range_ignored", lambda: "x-limits %r for xy_range %r" % (xlim, r))
            if not o["lifetime"]:
                ctx.require(tuple(ylim) == (r[2], r[3]), "xy_range_ignored", lambda: "y-limits %r for xy_range %r" % (ylim, r))
        ctx.require(ax.get_xlabel() == "Birth" and ax.get_ylabel() == ("Lifetime" if o["lifetime"] else "Death"), "axis_labels",
                    lambda: "labels (%r, %r)" % (ax.get_xlabel(), ax.get_ylabel()))
        ctx.require(ax.get_title() == (o["title"] or ""), "title", lambda: "title %r, requested %r" % (ax.get_title(), o["title"]))
        leg = ax.get_legend()
        if o["legend"]:
            ctx.require(leg is not None, "legend_missing", "legend requested but absent")
            texts = [t.get_text() for t in leg.get_texts()]
            want = ([r"$\infty$"] if has_inf else []) + want_labels
            ctx.require(sorted(texts) == sorted(want), "legend_texts", lambda: "legend %r, expected %r" % (texts, want))
        else:
            ctx.require(leg is None, "legend_unwanted", "legend drawn although legend=False")
        diag_lines = [l for l in lines if l.get_linestyle() == "--" and l.get_label() != r"$\infty$"]
        # the x=y reference line is drawn from identical x and y data; the (horizontal) infinity line is never it, however small the extent
        is_xy = [l for l in lines if l.get_label() != r"$\infty$" and len(l.get_xdata()) >= 2 and np.array_equal(np.asarray(l.get_xdata()), np.asarray(l.get_ydata()))
                 and l.get_xdata()[0] != l.get_xdata()[-1]]
        if o["diagonal"] and not o["lifetime"]:
            ok = any(np.allclose(l.get_xdata(), l.get_ydata()) for l in diag_lines)
            ctx.require(ok, "diagonal_missing", "diagonal requested but no x=y line drawn")
        else:
            # diagonal=False, or lifetime mode (where the diagonal of the birth-death plane has no meaning and is documented not to be drawn)
            ctx.require(not is_xy, "diagonal_unwanted", lambda: "an x=y line is drawn although diagonal=%r, lifetime=%r" % (o["diagonal"], o["lifetime"]))
    finally:
        plt.close("all")


# --------------------------------------------------------------------------------------
# matching plots

@st.composite
def s_matching(draw):
    fam = draw(diagram_family(count=2, min_size=0, max_size=6, allow_diag=True, scales=False, modes=("lattice", "float"), allow_neg=False))
    case = {"fam": fam, "kind": draw(st.sampled_from(["b", "w"])), "axes": draw(st.sampled_from(["current", "given_current", "given_not_current", "given_not_current"])),
            "dtype": draw(st.sampled_from(["float64", "float64", "uint8", "int16"])), "mult": draw(st.sampled_from([1, 15]))}
    if draw(st.integers(0, 3)) == 0:
        # "with or without infinite points": rows (birth, inf) inserted at generated positions of either diagram; the distance functions drop
        # them (with a warning), so the rows of the returned matching refer to the remaining finite points
        case["inf"] = draw(st.lists(st.tuples(st.integers(0, 1), st.integers(0, 6), st.sampled_from([0.0, 0.0, 1.0, 2.5])).map(list), min_size=1, max_size=3))
    return case


def seg_key(p, q):
    a, b = (tuple(p), tuple(q))
    return tuple(sorted([a, b]))


def check_matching(case, ctx):
    fam = case["fam"]
    A, B = fam["dgms"]
    if not A and not B:
        ctx.skip("both diagrams empty (nothing to plot)")
    dt = np.float64
    mult = case.get("mult", 1)
    flat = [x * mult for p in A + B for x in p]
    if case.get("dtype") in ("uint8", "int16") and all(float(x).is_integer() for x in flat) and min(flat) >= 0 and max(flat) <= (255 if case["dtype"] == "uint8" else 32767):
        # the same (integer) values stored in a narrow integer array: b + d may exceed the range of that dtype
        dt = getattr(np, case["dtype"])
        A = [[p[0] * mult, p[1] * mult] for p in A]
        B = [[p[0] * mult, p[1] * mult] for p in B]
        ctx.label("dtype:" + case["dtype"])
    Ain, Bin = [list(p) for p in A], [list(p) for p in B]
    if case.get("inf"):
        if dt is not np.float64:
            ctx.skip("infinite deaths cannot be stored in an integer array")
        for which, pos, birth in case["inf"]:
            tgt = Ain if which == 0 else Bin
            tgt.insert(min(int(pos), len(tgt)), [float(birth), float("inf")])
        ctx.label("with_infinite_points", "infinite_point_before_a_finite_one" if any(
            np.isinf(d[k][1]) and any(np.isfinite(q[1]) for q in d[k + 1:]) for d in (Ain, Bin) for k in range(len(d))) else None)
    a = np.array(Ain, dtype=dt).reshape(-1, 2)
    b = np.array(Bin, dtype=dt).reshape(-1, 2)
    dist_fn = bottleneck if case["kind"] == "b" else wasserstein
    plot_fn = bottleneck_matching if case["kind"] == "b" else wasserstein_matching
    _, match = ctx.call(dist_fn, a, b, matching=True)
    match = np.asarray(match)
    A1 = A if A else [[0.0, 0.0]]
    B1 = B if B else [[0.0, 0.0]]
    want = []
    kinds = set()
    for i, j, c in match.tolist():
        i, j = int(i), int(j)
        if i >= 0 and j >= 0:
            want.append((A1[i], B1[j]))
            kinds.add("cross")
        elif i >= 0:
            m = (A1[i][0] + A1[i][1]) / 2.0
            want.append((A1[i], [m, m]))
            kinds.add("diag_from_first")
        else:
            m = (B1[j][0] + B1[j][1]) / 2.0
            want.append((B1[j], [m, m]))
            kinds.add("diag_from_second")
    fig, ax_arg, ax, others = new_axes(case["axes"])
    try:
        with warnings.catch_warnings():
            warnings.simplefilter("ignore")
            ctx.call(plot_fn, a, b, match, ax=ax_arg)
        ctx.label("kind:" + case["kind"], "axes:" + case["axes"], *("row:" + k for k in sorted(kinds)))
        ctx.nontrivial(case["axes"] == "given_not_current" and "cross" in kinds and len(kinds) >= 2)
        untouched(ctx, others)
        colls, lines = artists(ax)
        ctx.require(len(colls) == 2, "collection_count", lambda: "%d scatter collections for two diagrams" % len(colls))
        # the x=y reference line of plot_diagrams is the only black line (ax_color); matching segments are C2 / C3 / green
        from matplotlib.colors import to_rgb
        segs = [l for l in lines if len(l.get_xdata()) == 2 and not np.allclose(to_rgb(l.get_color()), (0.0, 0.0, 0.0))]
        sc = max([1.0] + [abs(x) for p in A + B for x in p])
        got = [([float(l.get_xdata()[0]), float(l.get_ydata()[0])], [float(l.get_xdata()[1]), float(l.get_ydata()[1])]) for l in segs]
        ctx.require(len(got) == len(want), "segment_count",
                    lambda: "%d matching segments on the given axes for %d matching rows; rows=%s segments=%s" % (len(got), len(want), match.tolist(), got))
        used = [False] * len(got)
        for p, q in want:
            hit = None
            for t, (u, v) in enumerate(got):
                if used[t]:
                    continue
                if (_near(u, p, sc) and _near(v, q, sc)) or (_near(u, q, sc) and _near(v, p, sc)):
                    hit = t
                    break
            ctx.require(hit is not None, "segment_missing", lambda: "no segment joining %s and %s on the given axes; segments there: %s" % (p, q, got))
            used[hit] = True
        if case["kind"] == "b" and len(segs) >= 2:
            imax = int(np.argmax(match[:, 2]))
            p, q = want[imax]
            styles = [(l.get_linestyle(), l.get_linewidth(), l.get_color()) for l in segs]
            hi = [t for t, (u, v) in enumerate(got) if (_near(u, p, sc) and _near(v, q, sc)) or (_near(u, q, sc) and _near(v, p, sc))]
            distinct = [t for t in hi if all(styles[t] != styles[s] for s in range(len(segs)) if s != t)]
            ctx.require(len(distinct) >= 1, "bottleneck_pair_not_marked",
                        lambda: "the bottleneck row %s is not drawn with a style of its own: styles %s" % (match[imax].tolist(), styles))
    finally:
        plt.close("all")


def _near(u, p, sc):
    return abs(u[0] - p[0]) <= 1e-9 * sc + 1e-12 and abs(u[1] - p[1]) <= 1e-9 * sc + 1e-12


# --------------------------------------------------------------------------------------
# 2-D landscape plots

@st.composite
def s_landscape(draw):
    fam = draw(LD.bar_family(1, 5, scales=False, modes=("lattice", "float")))
    return {"fam": fam, "cls": draw(st.sampled_from(["exact", "approx"])), "num_steps": draw(st.sampled_from([5, 20, 50])),
            "depths": draw(st.sampled_from([None, None, [0, 1], [1, 3], [0, 2]])), "title": draw(st.sampled_from([None, "landscape"])),
            "labels": draw(st.sampled_from([None, ["x", "y"]])), "axes": draw(st.sampled_from(["current", "given_current", "given_not_current"]))}


def check_landscape(case, ctx):
    bars = case["fam"]["dgms"][0]
    if case["cls"] == "exact":
        land = LD.exact_from_bars(ctx, bars)
        curves = [np.array(d, dtype=float) for d in land.critical_pairs]
    else:
        land = ctx.call(PersLandscapeApprox, dgms=[np.array(bars, dtype=float)], hom_deg=0, num_steps=case["num_steps"])
        v = land.values
        if isinstance(v, np.ndarray) and v.dtype.kind in "US":
            ctx.skip("empty sentinel")
        grid = np.linspace(land.start, land.stop, land.num_steps)
        curves = [np.column_stack([grid, np.asarray(r, dtype=float)]) for r in np.asarray(v, dtype=float)]
    dr = range(case["depths"][0], case["depths"][1]) if case["depths"] else None
    sel = [k for k in range(len(curves)) if dr is None or k in dr]
    if dr is not None and len(dr) == 0:
        ctx.skip("empty depth range")
    fig, ax_arg, ax, others = new_axes(case["axes"])
    try:
        with warnings.catch_warnings():
            warnings.simplefilter("ignore")
            ret = ctx.call(plot_landscape_simple, land, title=case["title"], labels=case["labels"], depth_range=dr, ax=ax_arg)
        ctx.label("cls:" + case["cls"], "axes:" + case["axes"], "depth_range" if dr is not None else "all_depths")
        ctx.nontrivial(len(curves) >= 2)
        untouched(ctx, others)
        lines = list(ax.lines)
        ctx.require(len(lines) == len(sel), "line_count", lambda: "%d lines for %d plotted depths (of %d)" % (len(lines), len(sel), len(curves)))
        for l, k in zip(lines, sel):
            xy = np.asarray(l.get_xydata(), dtype=float)
            ctx.require(xy.shape == curves[k].shape and np.allclose(xy, curves[k], rtol=1e-12, atol=1e-12), "line_differs_from_landscape",
                        lambda: "line for depth %d has data %s, landscape %s" % (k, xy.tolist(), curves[k].tolist()))
            ctx.require(l.get_label() == "$\\lambda_{%d}$" % k, "line_label", lambda: "label %r for depth %d" % (l.get_label(), k))
        ctx.require(ax.get_title() == (case["title"] or ""), "title", lambda: "title %r" % ax.get_title())
        if case["labels"]:
            ctx.require([ax.get_xlabel(), ax.get_ylabel()] == case["labels"], "axis_labels", lambda: "labels %r" % ([ax.get_xlabel(), ax.get_ylabel()],))
    finally:
        plt.close("all")


def VALID_DEFAULT(case):
    try:
        if not valid_family(case["fam"], allow_diag=True):
            return False
        if "n_inf" in case:
            if len(case["n_inf"]) != len(case["fam"]["dgms"]) or any(len(d) < 1 for d in case["fam"]["dgms"]):
                return False
            po = case["opts"]["plot_only"]
            if po is not None and (not po or any(i >= len(case["fam"]["dgms"]) for i in po) or len(set(po)) != len(po)):
                return False
        if "cls" in case and any(not b[1] > b[0] for b in case["fam"]["dgms"][0]):
            return False
        if "inf" in case and (not case["inf"] or any(len(e) != 3 or e[0] not in (0, 1) or not 0 <= e[1] <= 6 or not 0 <= e[2] <= 10 for e in case["inf"])):
            return False
    except Exception:
        return False
    return True


CLAUSES = [
    Clause("plot_diagrams", s_diagrams(), check_diagrams, quick=1000, thorough=12000,
           rule="one PathCollection per plotted diagram on the target axes and nothing on the other; offsets == float32 data as (b,d) / (b,d-b); "
                "infinite deaths on a horizontal line labelled infinity strictly inside the y-limits; limits contain all points or equal xy_range; "
                "title, axis labels, legend presence and texts; non-trivial = >= 2 plotted diagrams with >= 3 points each"),
    Clause("matching_plots", s_matching(), check_matching, quick=1000, thorough=12000, floors={"axes:given_not_current": 0.2},
           rule="bottleneck_matching / wasserstein_matching with the matching returned by the distance function (0..6 points, one diagram may be "
                "empty): the multiset of 2-point segments on the GIVEN axes equals the matching rows (point-point, or point to ((b+d)/2,(b+d)/2)), "
                "nothing on other axes, the bottleneck row has a style of its own; non-trivial = axes not current and both cross and diagonal rows"),
    Clause("landscape_plots", s_landscape(), check_landscape, quick=600, thorough=6000,
           rule="plot_landscape_simple for exact and grid landscapes: one line per plotted depth carrying the critical pairs / (grid, samples), "
                "depth_range, title and axis labels honoured, target axes respected; non-trivial = >= 2 depths"),
]
