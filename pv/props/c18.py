"""C18 - transformers: fit+transform == fit_transform, and refits forget the past (model-based histories)."""
import numpy as np
from hypothesis import strategies as st

from persim import PersistenceImager, PersistenceLandscaper, PersLandscapeApprox

from ..core import Clause, close
from ..strategies import finite
from . import _img as I
from . import _land as LD

FUZZ = ["landscaper_history"]
RULE = ("A history = estimator constructor arguments (any subset of start/stop fixed by the user for the landscaper; pixel size, weight and kernel "
        "for the imager) + a generated list of fit / transform / fit_transform calls on diagram collections of different extent, interpreted against "
        "the real estimator and against a model that remembers only the user-fixed parameters and the data of the most recent fit.")
ASSUMPTIONS = [
    "what 'a fit learns' is observed through the public attributes (start/stop; birth_range, pers_range, width, height, resolution) and through transform outputs",
    "landscaper outputs are compared exactly with PersLandscapeApprox on the grid the MODEL predicts; imager state is compared (1e-9 relative) with "
    "a fresh imager fitted on the last data only",
    "every history starts with a fit; fits on data whose births (or persistences) are all equal are included - the learned state must then equal that of a fresh imager fitted on the same data, whatever it is",
]

# =========================================================================================
# landscaper


@st.composite
def dgm_list(draw, n_dgms=2):
    """a list of diagrams (one per homological degree) whose extents differ from draw to draw"""
    shift = draw(st.sampled_from([0.0, 0.0, 10.0, -5.0, 100.0, 3.5]))
    sc = draw(st.sampled_from([1.0, 1.0, 0.1, 5.0]))
    out = []
    for _ in range(n_dgms):
        n = draw(st.integers(1, 5))
        pts = []
        for _ in range(n):
            b = draw(st.integers(0, 8))
            ln = draw(st.integers(1, 8))
            pts.append([shift + sc * b, shift + sc * (b + ln)])
        out.append(pts)
    return out


@st.composite
def landscaper_history(draw, max_ops=8):
    fixed = draw(st.sampled_from(["none", "none", "start", "stop", "both"]))
    case = {"hom_deg": draw(st.sampled_from([0, 0, 1])), "num_steps": draw(st.sampled_from([5, 10, 11, 25, 50])),
            "flatten": draw(st.booleans()), "fixed": fixed, "start": draw(st.sampled_from([-1.0, 0.0, 2.0, -10.0])),
            "stop": draw(st.sampled_from([20.0, 9.0, 50.0, 120.0])), "ops": []}
    n = draw(st.integers(1, max_ops))
    for i in range(n):
        op = "fit" if i == 0 else draw(st.sampled_from(["fit", "fit", "transform", "transform", "fit_transform", "set"]))
        if i == 0 and draw(st.booleans()):
            op = "fit_transform"
        if op == "set":
            # the user fixes a parameter AFTER construction (attribute assignment or scikit-learn's set_params), possibly between a fit
            # and a transform; values are chosen off the data lattice so that they cannot coincide with a learned bound
            what = draw(st.sampled_from(["start", "stop", "both", "num_steps", "flatten", "freeze_start", "freeze_stop", "freeze_both"]))
            case["ops"].append({"op": "set", "what": what, "via": draw(st.sampled_from(["attr", "set_params"])),
                                "start": draw(st.sampled_from([-1.25, -7.75, 0.625])), "stop": draw(st.sampled_from([33.5, 140.25, 61.125])),
                                "num_steps": draw(st.sampled_from([6, 13, 40])), "flatten": draw(st.booleans())})
            continue
        case["ops"].append({"op": op, "X": draw(dgm_list())})
    if fixed != "none" and draw(st.integers(0, 2)) == 0 and any("X" in o for o in case["ops"]):
        # relation between parameters and data: the user-fixed bound coincides exactly with the extreme of one fit's data
        k = draw(st.sampled_from([i for i, o in enumerate(case["ops"]) if "X" in o]))
        X = case["ops"][k]["X"][case["hom_deg"]]
        case["start"] = min(b for b, _ in X)
        case["stop"] = max(d for _, d in X)
        case["coincides_with_op"] = k
    return case


def arrs(X):
    return [np.array(d, dtype=float) for d in X]


def want_landscape(ctx, X, h, start, stop, n, flatten):
    pla = ctx.call(PersLandscapeApprox, dgms=arrs(X), hom_deg=h, start=start, stop=stop, num_steps=n)
    v = pla.values
    if isinstance(v, np.ndarray) and v.dtype.kind in "US":
        return None
    v = np.asarray(v, dtype=float)
    return v.flatten() if flatten else v


def same_array(a, b):
    a = np.asarray(a)
    b = np.asarray(b)
    if a.dtype.kind in "US" or b.dtype.kind in "US":
        return a.dtype.kind == b.dtype.kind
    return a.shape == b.shape and np.array_equal(a.astype(float), b.astype(float))


def run_landscaper(case, ctx):
    h, n, flat = case["hom_deg"], case["num_steps"], case["flatten"]
    user = {}
    if case["fixed"] in ("start", "both"):
        user["start"] = case["start"]
    if case["fixed"] in ("stop", "both"):
        user["stop"] = case["stop"]

    def fresh():
        return ctx.call(PersistenceLandscaper, hom_deg=h, num_steps=n, flatten=flat, **user)

    est = fresh()
    fitted = None   # data of the most recent fit
    n_fits = 0
    extents = set()
    saw_transform_between = False
    n_set = 0
    for k, op in enumerate(case["ops"]):
        step = "op %d (%s)" % (k, op["op"])
        if op["op"] == "set":
            new = {}
            if op["what"] in ("start", "both"):
                new["start"] = op["start"]
            if op["what"] in ("stop", "both"):
                new["stop"] = op["stop"]
            if op["what"].startswith("freeze"):
                # the user assigns the PRESENT value (pl.stop = pl.stop, set_params(**get_params())): from now on it is user-fixed,
                # although it equals what the last fit learned
                if op["what"] in ("freeze_start", "freeze_both"):
                    new["start"] = est.start
                if op["what"] in ("freeze_stop", "freeze_both"):
                    new["stop"] = est.stop
                if any(v is None for v in new.values()):
                    ctx.skip("freeze before any fit (shrinker)")
            if op["what"] == "num_steps":
                new["num_steps"] = op["num_steps"]
            if op["what"] == "flatten":
                new["flatten"] = op["flatten"]
            if op["via"] == "set_params":
                ctx.call(est.set_params, **new)
            else:
                for kk, vv in new.items():
                    ctx.call(setattr, est, kk, vv)
            for kk, vv in new.items():
                if kk in ("start", "stop"):
                    user[kk] = vv
            n = new.get("num_steps", n)
            flat = new.get("flatten", flat)
            n_set += 1
            got = ctx.call(est.get_params)
            ctx.require(all(got.get(kk) == vv for kk, vv in new.items()), "set_parameter_not_reported",
                        lambda: "%s via %s: get_params() = %r after setting %r" % (step, op["via"], got, new))
            continue
        X = op["X"]
        if len(X) <= h or not X[h]:
            ctx.skip("no diagram in the requested degree (shrinker)")
        if op["op"] in ("fit", "fit_transform"):
            if op["op"] == "fit":
                ret = ctx.call(est.fit, arrs(X))
                ctx.require(ret is est, "fit_does_not_return_self", lambda: "%s returned %r" % (step, ret))
                out = None
            else:
                out = ctx.call(est.fit_transform, arrs(X))
            fitted = X
            n_fits += 1
            lo = min(b for b, _ in X[h])
            hi = max(d for _, d in X[h])
            extents.add((lo, hi))
            ws, wt = user.get("start", lo), user.get("stop", hi)
            ctx.require(est.start == ws and est.stop == wt, "fit_state_depends_on_history",
                        lambda: "after %s on data with births >= %r and deaths <= %r (user fixed: %s): start=%r stop=%r, expected start=%r stop=%r"
                        % (step, lo, hi, user, est.start, est.stop, ws, wt))
            if out is not None:
                # fit_transform == fit then transform, on a fresh estimator with the same user parameters
                other = fresh()
                ctx.call(other.fit, arrs(X))
                two = ctx.call(other.transform, arrs(X))
                ctx.require(same_array(out, two), "fit_transform_differs", lambda: "%s differs from fit(X).transform(X) on a fresh estimator" % step)
                want = want_landscape(ctx, X, h, ws, wt, n, flat)
                if want is not None:
                    ctx.require(same_array(out, want), "fit_transform_wrong_grid", lambda: "%s differs from the landscape on grid (%r, %r, %d)" % (step, ws, wt, n))
        elif op["op"] == "transform":
            if fitted is None:
                ctx.skip("transform before any fit (shrinker)")
            saw_transform_between = True
            lo = min(b for b, _ in fitted[h])
            hi = max(d for _, d in fitted[h])
            ws, wt = user.get("start", lo), user.get("stop", hi)
            before = ctx.call(est.get_params)
            out = ctx.call(est.transform, arrs(X))
            again = ctx.call(est.transform, arrs(X))
            ctx.require(same_array(out, again), "transform_not_repeatable", lambda: "%s: two transforms of the same data differ" % step)
            ctx.require(ctx.call(est.get_params) == before, "transform_alters_state", lambda: "%s changed get_params(): %r -> %r" % (step, before, est.get_params()))
            want = want_landscape(ctx, X, h, ws, wt, n, flat)
            if want is not None:
                ctx.require(same_array(out, want), "transform_depends_on_history",
                            lambda: "%s: output differs from the landscape on the grid of the most recent fit (%r, %r, %d); estimator has start=%r stop=%r"
                            % (step, ws, wt, n, est.start, est.stop))
        else:
            ctx.skip("unknown op (shrinker)")
    ctx.label("fixed:" + case["fixed"], "fits=%d" % min(n_fits, 4), "parameter_set_after_construction" if n_set else None, "refit_different_extent" if len(extents) >= 2 else None,
              "fixed_bound_equals_a_data_extreme" if "coincides_with_op" in case else None)
    ctx.nontrivial(len(extents) >= 2 and saw_transform_between and case["ops"][-1]["op"] != "fit")


def landscaper_machine(record):
    """Hypothesis rule-based state machine over a LIVE PersistenceLandscaper: the data of a fit / transform may be tied to the estimator's
    CURRENT grid (its smallest birth equal to the present `start`, its largest death equal to the present `stop` - the coincidence the
    learned-vs-user-fixed bookkeeping has to get right), parameters are assigned between calls; the recorded history has the format of
    `landscaper_history` and is judged by run_landscaper on a fresh estimator."""
    from hypothesis.stateful import RuleBasedStateMachine, initialize, precondition, rule

    class LandscaperMachine(RuleBasedStateMachine):
        def __init__(self):
            super().__init__()
            self.case = None
            self.est = None
            self.dead = False

        @initialize(h=st.sampled_from([0, 0, 1]), n=st.sampled_from([5, 10, 11, 25, 50]), flat=st.booleans(), fixed=st.sampled_from(["none", "none", "start", "stop", "both"]),
                    start=st.sampled_from([-1.0, 0.0, 2.0, -10.0]), stop=st.sampled_from([20.0, 9.0, 50.0, 120.0]), X=dgm_list(), ft=st.booleans())
        def construct(self, h, n, flat, fixed, start, stop, X, ft):
            self.case = {"hom_deg": h, "num_steps": n, "flatten": flat, "fixed": fixed, "start": start, "stop": stop, "ops": [], "machine": True}
            user = {}
            if fixed in ("start", "both"):
                user["start"] = start
            if fixed in ("stop", "both"):
                user["stop"] = stop
            try:
                self.est = PersistenceLandscaper(hom_deg=h, num_steps=n, flatten=flat, **user)
            except Exception:  # noqa: BLE001
                self.dead = True
                return
            self._call("fit_transform" if ft else "fit", X)      # every history starts with a fit

        def alive(self):
            return self.case is not None and not self.dead and len(self.case["ops"]) < 20

        def _call(self, op, X):
            self.case["ops"].append({"op": op, "X": X})
            try:
                getattr(self.est, op)(arrs(X))
            except Exception:  # noqa: BLE001 - run_landscaper reports it
                self.dead = True

        def _tied(self, X, tie):
            """shift / stretch the diagram of the estimator's degree so that its extremes coincide with the present grid ends"""
            h = self.case["hom_deg"]
            d = [list(q) for q in X[h]]
            s0, s1 = self.est.start, self.est.stop
            lo = min(b for b, _ in d)
            hi = max(q[1] for q in d)
            if tie in ("start", "both") and s0 is not None:
                d = [[b + (s0 - lo), e + (s0 - lo)] for b, e in d]
                hi = max(q[1] for q in d)
            if tie in ("stop", "both") and s1 is not None and all(b < s1 for b, _ in d):
                d = [[b, (s1 if e == hi else min(e, s1))] for b, e in d]
            if any(not e > b for b, e in d):
                return None
            out = [list(map(list, x)) for x in X]
            out[h] = [[float(b), float(e)] for b, e in d]
            return out

        @precondition(lambda self: self.alive())
        @rule(op=st.sampled_from(["fit", "fit", "transform", "transform", "fit_transform"]), X=dgm_list(), tie=st.sampled_from(["none", "none", "start", "stop", "both"]))
        def call(self, op, X, tie):
            if tie != "none":
                X = self._tied(X, tie)
                if X is None:
                    return
            self._call(op, X)

        @precondition(lambda self: self.alive())
        @rule(what=st.sampled_from(["start", "stop", "both", "num_steps", "flatten", "freeze_start", "freeze_stop", "freeze_both"]), via=st.sampled_from(["attr", "set_params"]),
              start=st.sampled_from([-1.25, -7.75, 0.625]), stop=st.sampled_from([33.5, 140.25, 61.125]), num_steps=st.sampled_from([6, 13, 40]), flatten=st.booleans())
        def set_parameter(self, what, via, start, stop, num_steps, flatten):
            self.case["ops"].append({"op": "set", "what": what, "via": via, "start": start, "stop": stop, "num_steps": num_steps, "flatten": flatten})
            new = {}
            if what in ("start", "both"):
                new["start"] = start
            if what in ("stop", "both"):
                new["stop"] = stop
            if what in ("freeze_start", "freeze_both"):
                new["start"] = self.est.start
            if what in ("freeze_stop", "freeze_both"):
                new["stop"] = self.est.stop
            if what == "num_steps":
                new["num_steps"] = num_steps
            if what == "flatten":
                new["flatten"] = flatten
            try:
                if via == "set_params":
                    self.est.set_params(**new)
                else:
                    for k, v in new.items():
                        setattr(self.est, k, v)
            except Exception:  # noqa: BLE001
                self.dead = True

        def teardown(self):
            if self.case is not None and self.case["ops"]:
                record(self.case)

    return LandscaperMachine


# =========================================================================================
# imager

@st.composite
def imager_data(draw):
    shift = draw(st.sampled_from([0.0, 0.0, 5.0, -3.0, 20.0]))
    sc = draw(st.sampled_from([1.0, 1.0, 0.5, 3.0]))
    k = draw(st.sampled_from([1, 1, 2, 3, 4]))
    dgms = []
    for _ in range(k):
        n = draw(st.integers(2, 6))
        pts = []
        same_birth = draw(st.integers(0, 5)) == 0
        for i in range(n):
            b = shift + sc * (0.0 if same_birth else draw(st.sampled_from([0.0, 0.1, 0.3, 0.7, 1.0, 2.5, 4.0])))
            p = sc * draw(st.sampled_from([0.1, 0.2, 0.3, 0.7, 1.0, 1.5, 3.3]))
            pts.append([b, b + p])
        dgms.append(pts)
    return {"dgms": dgms, "single": k == 1 and draw(st.booleans()), "skew": draw(st.booleans()), "n_jobs": draw(st.sampled_from([None, None, 1, 1, 2]))}


@st.composite
def imager_history(draw, max_ops=7):
    pixel = draw(st.sampled_from([0.1, 0.2, 0.3, 0.5, 0.7, 1.0]))
    case = {"pixel": pixel, "kernel": draw(I.kernel_spec(pixel, max_r=0.95)), "weight": draw(I.weight_spec(pixel)), "ops": []}
    n = draw(st.integers(1, max_ops))
    for i in range(n):
        op = "fit" if i == 0 else draw(st.sampled_from(["fit", "fit", "transform", "transform", "fit_transform"]))
        if i == 0 and draw(st.booleans()):
            op = "fit_transform"
        case["ops"].append(dict(draw(imager_data()), op=op))
    return case


def data_arg(op):
    a = [np.array(d, dtype=float) for d in op["dgms"]]
    if not op["skew"]:
        for x in a:
            x[:, 1] = x[:, 1] - x[:, 0]
    return a[0] if (op["single"] and len(a) == 1) else a


def extent_ok(op):
    bs, ps = [], []
    for d in op["dgms"]:
        for b, dd in d:
            bs.append(b)
            ps.append(dd - b)
    return max(bs) > min(bs) and max(ps) > min(ps), (min(bs), max(bs), min(ps), max(ps))


def public_state(imgr):
    return {"birth_range": tuple(float(x) for x in imgr.birth_range), "pers_range": tuple(float(x) for x in imgr.pers_range),
            "width": float(imgr.width), "height": float(imgr.height), "resolution": tuple(int(x) for x in imgr.resolution),
            "pixel_size": float(imgr.pixel_size)}


def states_close(a, b):
    if a["resolution"] != b["resolution"] or a["pixel_size"] != b["pixel_size"]:
        return False
    sc = max(abs(x) for x in a["birth_range"] + a["pers_range"]) + a["pixel_size"]
    for k in ("birth_range", "pers_range"):
        if not all(close(x, y, sc) for x, y in zip(a[k], b[k])):
            return False
    return close(a["width"], b["width"], sc) and close(a["height"], b["height"], sc)


def images_equal(a, b, exact=True):
    la = a if isinstance(a, list) else [a]
    lb = b if isinstance(b, list) else [b]
    if isinstance(a, list) != isinstance(b, list) or len(la) != len(lb):
        return False
    for x, y in zip(la, lb):
        x, y = np.asarray(x), np.asarray(y)
        if x.shape != y.shape:
            return False
        if x.size == 0:
            continue
        if exact and not np.array_equal(x, y):
            return False
        if not exact and not np.all(np.abs(x - y) <= 1e-7 * max(1.0, float(np.max(np.abs(y))))):
            return False
    return True


def run_imager(case, ctx):
    kern, kp = I.kernel_args(case["kernel"])
    wt, wp = I.weight_args(case["weight"])

    def fresh():
        return ctx.call(PersistenceImager, pixel_size=case["pixel"], weight=wt, weight_params=wp, kernel=kern, kernel_params=kp)

    est = fresh()
    fitted = False
    extents = set()
    saw_transform = False
    degenerate = False
    for k, op in enumerate(case["ops"]):
        ok, ext = extent_ok(op)
        if not ok:
            degenerate = True   # all births (or all persistences) equal, e.g. H0 diagrams: still "arbitrary collections"
        if (ext[1] - ext[0]) / case["pixel"] > 80 or (ext[3] - ext[2]) / case["pixel"] > 80:
            ctx.skip("resolution beyond the cost bound")
        step = "op %d (%s)" % (k, op["op"])
        if op["op"] in ("fit", "fit_transform"):
            if op["op"] == "fit":
                ctx.call(est.fit, data_arg(op), skew=op["skew"])
                out = None
            else:
                out = ctx.call(est.fit_transform, data_arg(op), skew=op["skew"])
            fitted = True
            extents.add(ext)
            other = fresh()
            ctx.call(other.fit, data_arg(op), skew=op["skew"])
            sa, sb = public_state(est), public_state(other)
            ctx.require(states_close(sa, sb), "fit_state_depends_on_history",
                        lambda: "after %s: state %s differs from a fresh imager fitted on the same data only: %s" % (step, sa, sb))
            if out is not None:
                two = ctx.call(other.transform, data_arg(op), skew=op["skew"])
                ctx.require(images_equal(out, two, exact=False), "fit_transform_differs",
                            lambda: "%s differs from fit(X); transform(X) on a fresh imager" % step)
                fresh2 = fresh()
                out2 = ctx.call(fresh2.fit_transform, data_arg(op), skew=op["skew"])
                ctx.require(images_equal(out2, two, exact=True), "fit_transform_differs",
                            lambda: "fresh imager: fit_transform(X) is not identical to fit(X); transform(X)")
        elif op["op"] == "transform":
            if not fitted:
                ctx.skip("transform before fit (shrinker)")
            saw_transform = True
            before = public_state(est)
            arg = data_arg(op)
            nj = op.get("n_jobs") if isinstance(arg, list) else None
            if nj == 2 and k % 5:
                nj = 1                   # real worker processes only now and then (start-up cost), n_jobs=1 takes the same code path
            kw = {} if nj is None else {"n_jobs": nj}
            ctx.label("n_jobs=%s" % nj if nj else None)
            out = ctx.call(est.transform, arg, skew=op["skew"], **kw)
            again = ctx.call(est.transform, arg, skew=op["skew"])
            ctx.require(images_equal(out, again), "transform_not_repeatable", lambda: "%s: two transforms of the same data differ" % step)
            ctx.require(public_state(est) == before, "transform_alters_state", lambda: "%s changed the public state %s -> %s" % (step, before, public_state(est)))
            res = tuple(est.resolution)
            if isinstance(arg, list):
                ctx.require(isinstance(out, list) and len(out) == len(arg), "collection_form", lambda: "%s: %d diagrams in, %r out" % (step, len(arg), type(out).__name__))
                for i, a in enumerate(arg):
                    one = np.asarray(ctx.call(est.transform, a, skew=op["skew"]))
                    ctx.require(one.shape == res and np.array_equal(one, np.asarray(out[i])), "collection_not_elementwise",
                                lambda: "%s: entry %d of transform(list) differs from transform(diagram %d)" % (step, i, i))
            else:
                ctx.require(np.asarray(out).shape == res, "image_shape", lambda: "%s: image shape %s, resolution %s" % (step, np.asarray(out).shape, res))
        else:
            ctx.skip("unknown op (shrinker)")
    ctx.label("kernel:" + I.kernel_class(case["kernel"]), "refit_different_extent" if len(extents) >= 2 else None,
              "zero_extent_fit" if degenerate else None)
    ctx.nontrivial(len(extents) >= 2 and saw_transform and case["ops"][-1]["op"] != "fit")


def VALID_DEFAULT(case):
    try:
        if not case["ops"] or case["ops"][0]["op"] not in ("fit", "fit_transform"):
            return False
        if "kernel" in case:
            if not I.valid_spec({"grid": {"pixel": case["pixel"], "nb": 1, "np": 1}, "kernel": case["kernel"], "weight": case["weight"]}):
                return False
            for op in case["ops"]:
                if not op["dgms"] or any(len(d) < 1 or any(len(q) != 2 or not q[1] > q[0] for q in d) for d in op["dgms"]):
                    return False
                if op["single"] and len(op["dgms"]) != 1:
                    return False
        else:
            for op in case["ops"]:
                if op["op"] == "set":
                    if op["what"] not in ("start", "stop", "both", "num_steps", "flatten", "freeze_start", "freeze_stop", "freeze_both") or op["via"] not in ("attr", "set_params") or not op["num_steps"] >= 2 \
                            or op["start"] not in (-1.25, -7.75, 0.625) or op["stop"] not in (33.5, 140.25, 61.125):
                        return False
                    continue
                if len(op["X"]) < 2 or any(len(d) < 1 or any(len(q) != 2 or not q[1] > q[0] for q in d) for d in op["X"]):
                    return False
    except Exception:
        return False
    return True


CLAUSES = [
    Clause("landscaper_history", landscaper_history(8), run_landscaper, quick=6000, thorough=60000, floors={"refit_different_extent": 0.2},
           rule="PersistenceLandscaper with a generated subset of {start, stop} fixed + 1..8 fit / transform / fit_transform calls and parameter assignments after construction (attribute or set_params: start, stop, num_steps, flatten); after each fit "
                "start/stop equal the user value or the extent of THAT fit's data; every transform equals the landscape on the grid of the most recent "
                "fit, is repeatable and leaves get_params() unchanged; fit_transform == fit;transform on a fresh estimator; non-trivial = >= 2 fits "
                "on data of different extent with a transform in between and after"),
    Clause("landscaper_machine", machine=landscaper_machine, machine_steps=12, check=run_landscaper, quick=2400, thorough=24000,
           rule="hypothesis.stateful.RuleBasedStateMachine driving a live PersistenceLandscaper: fit / transform / fit_transform on data whose extremes may be "
                "TIED to the estimator's current start / stop, parameter assignments in between, up to 12 steps; the recorded history is judged by the same "
                "interpreter and model as landscaper_history; non-trivial as there"),
    Clause("imager_history", imager_history(7), run_imager, quick=3000, thorough=30000, floors={"refit_different_extent": 0.2},
           rule="PersistenceImager with fixed pixel size / weight / kernel + 1..7 calls; after each fit the public state equals that of a fresh imager "
                "fitted on that data only; fit_transform == fit;transform; transform of a collection (serially or with n_jobs) is element-wise and ordered, repeatable, and "
                "leaves the public state unchanged; non-trivial as above"),
]
