"""C19 - the public API is pure, repeatable and representation-independent (model-based histories)."""
import copy
import hashlib
import math
import warnings

import matplotlib
matplotlib.use("Agg")
import matplotlib.pyplot as plt
import numpy as np
import scipy.sparse as sps
from hypothesis import strategies as st

import persim
from persim import (PersImage, PersistenceImager, PersistenceLandscaper, PersLandscapeApprox, PersLandscapeExact, bottleneck,
                    bottleneck_matching, gromov_hausdorff, heat, plot_diagrams, sliced_wasserstein, wasserstein, wasserstein_matching)
from persim import images_kernels, images_weights
from persim.landscapes.tools import average_approx, death_vector, lc_approx, snap_pl, vectorize
from persim.landscapes.visuals import plot_landscape_simple
from persim.persistent_entropy import persistent_entropy

from ..core import Clause, Violation, close
from ..strategies import dict_of
from . import _graph as G
from . import _img as I

RULE = ("A history = a pool of inputs (2..4 diagrams held as float64 array (C-contiguous, Fortran-ordered, a non-contiguous view, or read-only), float32 array, integer array (int64, int16 or uint8) or nested list; one diagram with infinite deaths held as float64 or float32 array; 2 graphs as dense / sparse / nested-list "
        "adjacency) + a generated list of calls to the public entry points (distances with and without matchings, heat, sliced Wasserstein, entropy, "
        "mGH pair and collection, both imagers incl. plots, exact / grid landscapes and their arithmetic, norms, tools, transformer, diagram / "
        "matching / landscape plots, kernels and weights). Every pooled input is snapshotted at creation (dtype, shape, bytes; deep copy for lists; "
        "data/indices/indptr for sparse) and compared after EVERY call; 'repeat' steps re-issue an earlier logged call after arbitrary other calls and "
        "demand a bit-identical result; 'rejected' steps call an entry point on INVALID input (NaN, wrong shape, a bar born after dying, None) and ignore the outcome, as a caller's try/except would - later repeats must still be bit-identical; every call is also made on equal-valued inputs in the other accepted forms and results must agree.")
ASSUMPTIONS = [
    "accepted-forms table (from docstrings and observed behaviour): nested lists for bottleneck, wasserstein, heat, PersistenceImager, PersImage and "
    "PersLandscapeExact; integer and float arrays everywhere; a form a function does not accept is not generated for it",
    "estimator objects are re-created from the logged constructor arguments for every call, so the intended statefulness of fit (C18) is not "
    "mistaken for impurity",
    "gromov_hausdorff is repeated under np.random.seed(same seed); representation agreement is 'close' (1e-9 relative), repetition is bitwise",
    "diagrams have integer coordinates (so that an integer-array form with equal values exists) and strictly positive persistence",
]

FORMS = ["float", "int", "list", "float32", "uint8", "int16", "fortran", "strided", "readonly"]


def as_form(pts, form):
    if form == "float":
        return np.array(pts, dtype=float)
    if form == "int":
        return np.array(pts, dtype=np.int64)
    if form == "float32":
        return np.array(pts, dtype=np.float32)
    if form in ("uint8", "int16"):
        return np.array(pts, dtype=getattr(np, form))
    if form == "fortran":        # float64, column-major memory layout (e.g. np.array([births, deaths]).T)
        return np.asfortranarray(np.array(pts, dtype=float))
    if form == "strided":        # float64, a non-contiguous view into a larger array (every second row, two inner columns)
        big = np.full((2 * len(pts) + 1, 4), 99.0)
        view = big[1::2, 1:3]
        view[:] = np.array(pts, dtype=float)
        return view
    if form == "readonly":       # float64, not writeable (e.g. an array loaded with mmap_mode="r" or handed over by joblib)
        a = np.array(pts, dtype=float)
        a.setflags(write=False)
        return a
    return [[int(b), int(d)] for b, d in pts]


def snapshot(x):
    if isinstance(x, np.ndarray):
        return ("nd", x.dtype.str, x.shape, x.tobytes())
    if sps.issparse(x):
        c = x.tocoo()
        return ("sp", type(x).__name__, x.shape, x.dtype.str, c.row.tobytes(), c.col.tobytes(), c.data.tobytes(), getattr(x, "nnz", None))
    if isinstance(x, (list, tuple)):
        return ("seq", type(x).__name__, tuple(snapshot(e) for e in x))
    if isinstance(x, (int, float, str, bool)) or x is None:
        return ("v", type(x).__name__, repr(x))
    if isinstance(x, (np.integer, np.floating)):
        return ("v", type(x).__name__, repr(x))
    if isinstance(x, PersLandscapeExact):
        return ("ple", x.hom_deg, snapshot([[list(map(float, q)) for q in d] for d in x.critical_pairs]))
    if isinstance(x, PersLandscapeApprox):
        return ("pla", x.hom_deg, x.start, x.stop, x.num_steps, snapshot(np.asarray(x.values)))
    if isinstance(x, dict):
        return ("dict", tuple((k, snapshot(v)) for k, v in sorted(x.items())))
    raise TypeError("cannot snapshot %r" % type(x))


def digest(x):
    """bitwise result digest (None for results that carry no value, e.g. matplotlib axes)"""
    if x is None or isinstance(x, (plt.Axes, plt.Figure)):
        return None
    if isinstance(x, tuple):
        return tuple(digest(e) for e in x)
    if isinstance(x, list):
        return ("list",) + tuple(digest(e) for e in x)
    if isinstance(x, (PersLandscapeExact, PersLandscapeApprox)):
        return snapshot(x)
    if isinstance(x, (float, np.floating)):
        return float(x).hex()
    if isinstance(x, (int, np.integer)):
        return int(x)
    if isinstance(x, np.ndarray):
        return ("nd", x.dtype.str, x.shape, hashlib.sha1(np.ascontiguousarray(x).tobytes()).hexdigest())
    return snapshot(x)


def numeric(x):
    """flatten a result to a list of floats for the representation comparison"""
    if x is None or isinstance(x, (plt.Axes, plt.Figure)):
        return []
    if isinstance(x, (tuple, list)):
        out = []
        for e in x:
            out += numeric(e)
        return out
    if isinstance(x, PersLandscapeExact):
        return [float(v) for d in x.critical_pairs for q in d for v in q]
    if isinstance(x, PersLandscapeApprox):
        if np.asarray(x.values).dtype.kind in "US":       # the documented "empty" sentinel (no snapped bar spans two steps)
            return [float(x.start), float(x.stop), -987654321.0]
        return [float(x.start), float(x.stop)] + [float(v) for v in np.asarray(x.values, dtype=float).ravel()]
    if isinstance(x, np.ndarray):
        if x.dtype.kind in "US":
            return []
        return [float(v) for v in x.astype(float).ravel()]
    return [float(x)]


# ---------------------------------------------------------------------------------------
# entry points: name -> (function(args, opt) -> result, accepted forms, number of diagram args)

def _imager(opt):
    return PersistenceImager(birth_range=(0.0, 6.0), pers_range=(0.0, 6.0), pixel_size=opt.get("pixel", 1.0),
                             weight=opt.get("weight", "persistence"), weight_params=opt.get("wp", {"n": 1.0}),
                             kernel=opt.get("kernel", "gaussian"), kernel_params=opt.get("kp", {"sigma": [[1.0, 0.5], [0.5, 2.0]]}))


def _arr(d):
    return np.asarray(d)


def e_bottleneck(a, o):
    return bottleneck(a[0], a[1], matching=o.get("matching", False))


def e_wasserstein(a, o):
    return wasserstein(a[0], a[1], matching=o.get("matching", False))


def e_heat(a, o):
    return heat(a[0], a[1], o.get("sigma", 0.4))


def e_sliced(a, o):
    return sliced_wasserstein(a[0], a[1], M=o.get("M", 10))


def e_entropy(a, o):
    return persistent_entropy(a[0] if o.get("single", True) else [a[0], a[1]], normalize=o.get("normalize", False))


def e_imager_transform(a, o):
    im = _imager(o)
    arg = a[0] if o.get("single", True) else [a[0], a[1]]
    return im.transform(arg, skew=o.get("skew", True))


def e_imager_fit_transform(a, o):
    im = _imager(o)
    arg = a[0] if o.get("single", True) else [a[0], a[1]]
    out = im.fit_transform(arg, skew=o.get("skew", True))
    return (out, tuple(float(v) for v in im.birth_range + im.pers_range), tuple(im.resolution))


def e_imager_fit(a, o):
    im = _imager(o)
    im.fit(a[0] if o.get("single", True) else [a[0], a[1]], skew=o.get("skew", True))
    return (tuple(float(v) for v in im.birth_range + im.pers_range), tuple(im.resolution))


def e_imager_plots(a, o):
    im = _imager(o)
    plt.close("all")
    fig, ax = plt.subplots()
    im.plot_diagram(_arr(a[0]), skew=o.get("skew", True), ax=ax)
    img = im.transform(a[0], skew=o.get("skew", True))
    before = snapshot(img)
    im.plot_image(img, ax=ax)
    plt.close("all")
    if snapshot(img) != before:
        raise Violation("argument_modified", "plot_image modified the image passed to it")
    return None


def e_persimage(a, o):
    with warnings.catch_warnings():
        warnings.simplefilter("ignore")
        pim = PersImage(pixels=(5, 5), spread=o.get("spread", 1.0), verbose=False)
    return pim.transform(a[0] if o.get("single", True) else [a[0], a[1]])


def e_exact(a, o):
    return PersLandscapeExact(dgms=[a[0], a[1]], hom_deg=o.get("hom_deg", 0))


def e_approx(a, o):
    return PersLandscapeApprox(dgms=[a[0], a[1]], hom_deg=o.get("hom_deg", 0), num_steps=o.get("num_steps", 20))


def e_landscaper(a, o):
    kw = {}
    if o.get("start") is not None:
        kw["start"] = o["start"]
    if o.get("stop") is not None:
        kw["stop"] = o["stop"]
    tr = PersistenceLandscaper(hom_deg=o.get("hom_deg", 0), num_steps=o.get("num_steps", 12), flatten=o.get("flatten", False), **kw)
    out = tr.fit_transform([a[0], a[1]])
    return (out, float(tr.start), float(tr.stop))


def e_death_vector(a, o):
    return [float(x) for x in death_vector([a[0], a[1]])]


def e_exact_ops(a, o):
    """arithmetic, norms, vectorize and the 2-D plot on landscapes built from the pooled diagrams; the landscapes themselves
    are snapshotted before and compared after"""
    P = PersLandscapeExact(dgms=[a[0]], hom_deg=0)
    Q = PersLandscapeExact(dgms=[a[1]], hom_deg=0)
    sp, sq = snapshot(P), snapshot(Q)
    out = [P + Q, P - Q, -P, 2.5 * P, Q / 2, P.p_norm(o.get("p", 2)), P.sup_norm(), (P - Q).p_norm(o.get("p", 2)), vectorize(P, num_steps=15)]
    plt.close("all")
    fig, ax = plt.subplots()
    plot_landscape_simple(P, ax=ax)
    plt.close("all")
    if snapshot(P) != sp or snapshot(Q) != sq:
        raise Violation("argument_modified", "an exact landscape operand changed during arithmetic / norms / vectorize / plotting")
    return out


def e_approx_ops(a, o):
    kw = dict(start=-1.0, stop=14.0, num_steps=o.get("num_steps", 16), hom_deg=0)
    P = PersLandscapeApprox(dgms=[a[0]], **kw)
    Q = PersLandscapeApprox(dgms=[a[1]], start=0.0, stop=13.0, num_steps=14, hom_deg=0)
    for x in (P, Q):
        if np.asarray(x.values).dtype.kind in "US":
            return None
    sp, sq = snapshot(P), snapshot(Q)
    P2 = PersLandscapeApprox(dgms=[a[1]], **kw)
    if np.asarray(P2.values).dtype.kind in "US":
        return None
    out = [P + P2, P - P2, -P, 3 * P, P / 4, P.p_norm(o.get("p", 2)), P.sup_norm(), snap_pl([P, Q]), lc_approx([P, Q], [2.0, -1.0]),
           average_approx([P, Q], num_steps=9)]
    plt.close("all")
    fig, ax = plt.subplots()
    plot_landscape_simple(P, ax=ax)
    plt.close("all")
    if snapshot(P) != sp or snapshot(Q) != sq:
        raise Violation("argument_modified", "a grid landscape operand changed during arithmetic / norms / snap_pl / lc_approx / plotting")
    return out


def e_plot_diagrams(a, o):
    plt.close("all")
    fig, ax = plt.subplots()
    labels = {"none": None, "full": ["first", "second"], "short": ["only one name"], "str": "both"}[o.get("labels", "none")]
    keep = copy.deepcopy(labels)
    dg = [_arr(a[0]), _arr(a[1])]
    with warnings.catch_warnings():
        warnings.simplefilter("ignore")
        plot_diagrams(dg, lifetime=o.get("lifetime", False), legend=o.get("legend", True), labels=labels, ax=ax)
        if o.get("matching"):
            d, m = bottleneck(dg[0], dg[1], matching=True)
            bottleneck_matching(dg[0], dg[1], m, labels=labels if isinstance(labels, list) and len(labels) == 2 else ["dgm1", "dgm2"], ax=ax)
    plt.close("all")
    if labels != keep:
        raise Violation("argument_modified", "the labels list passed to plot_diagrams was modified: %r -> %r" % (keep, labels))
    return None


def e_matching_plots(a, o):
    A, B = _arr(a[0]), _arr(a[1])
    fn, pf = (bottleneck, bottleneck_matching) if o.get("kind", "b") == "b" else (wasserstein, wasserstein_matching)
    d, m = fn(A, B, matching=True)
    sm = snapshot(m)
    plt.close("all")
    fig, ax = plt.subplots()
    with warnings.catch_warnings():
        warnings.simplefilter("ignore")
        pf(A, B, m, ax=ax)
    plt.close("all")
    if snapshot(m) != sm:
        raise Violation("argument_modified", "the matching array passed to the matching plot was modified")
    return (d, m)


def e_kernels(a, o):
    # births, deaths and persistences in the dtype of the pooled form (an integer array for the integer / list forms): the kernel and
    # weight functions are public, and their values must not depend on that dtype either
    A = np.asarray(a[0])
    x, y = A[:, 0].copy(), A[:, 1].copy()
    pers = (y - x).copy()
    mu = np.array([1.0, 2.0])
    sig = np.array([[1.0, o.get("cov", 0.5)], [o.get("cov", 0.5), 2.0]])
    snaps = [snapshot(v) for v in (x, y, pers, mu, sig)]
    # (the kernel CDFs are evaluated at pixel corners, i.e. on float arrays; only the weight functions see the diagram's own dtype)
    xf, yf = x.astype(float), y.astype(float)
    out = [images_kernels.gaussian(xf, yf, mu=mu, sigma=sig), images_kernels.uniform(xf, yf, mu=mu, width=2.0, height=3.0),
           images_kernels.norm_cdf(xf), images_weights.persistence(x, pers, n=2.0), images_weights.linear_ramp(x, pers, low=0.0, high=1.0, start=0.0, end=2.0),
           images_weights.linear_ramp(x, pers, low=0.25, high=1.75, start=1.0, end=4.0)]
    if [snapshot(v) for v in (x, y, pers, mu, sig)] != snaps:
        raise Violation("argument_modified", "a kernel / weight function modified its arguments")
    return out


def i_entropy(d, o):
    if o.get("keep", False):
        return persistent_entropy(d, keep_inf=True, val_inf=o.get("val", 50.0), normalize=o.get("normalize", False))
    return persistent_entropy(d, keep_inf=False, normalize=o.get("normalize", False))


def i_plot(d, o):
    plt.close("all")
    fig, ax = plt.subplots()
    with warnings.catch_warnings():
        warnings.simplefilter("ignore")
        plot_diagrams([d, d] if o.get("twice") else d, lifetime=o.get("lifetime", False), ax=ax)
    colls = [c.get_offsets().copy() for c in ax.collections]
    plt.close("all")
    return [np.asarray(c, dtype=float) for c in colls]


def i_bottleneck(d, o):
    return bottleneck(d, np.array([[0.0, 2.0], [1.0, 5.0]]))


def i_wasserstein(d, o):
    return wasserstein(np.array([[0.0, 2.0], [1.0, 5.0]]), d)


def i_approx(d, o):
    return PersLandscapeApprox(dgms=[d], hom_deg=0, num_steps=o.get("num_steps", 15))


def i_death(d, o):
    return [float(x) for x in death_vector([d])]


INF_ENTRIES = {"entropy_inf": i_entropy, "plot_diagrams_inf": i_plot, "bottleneck_inf": i_bottleneck, "wasserstein_inf": i_wasserstein,
               "approx_landscape_inf": i_approx, "death_vector_inf": i_death}
INF_OPTS = dict_of({"keep": st.booleans(), "val": st.sampled_from([50.0, 20.0]), "normalize": st.booleans(), "lifetime": st.booleans(),
                                  "twice": st.booleans(), "num_steps": st.sampled_from([10, 25])})

ALL3 = ("float", "int", "list", "float32", "uint8", "int16", "fortran", "strided", "readonly")
ARR2 = ("float", "int", "float32", "uint8", "int16", "fortran", "strided", "readonly")
ENTRIES = {
    "bottleneck": (e_bottleneck, ALL3), "wasserstein": (e_wasserstein, ALL3), "heat": (e_heat, ALL3), "sliced_wasserstein": (e_sliced, ARR2),
    "persistent_entropy": (e_entropy, ARR2), "imager_transform": (e_imager_transform, ALL3), "imager_fit_transform": (e_imager_fit_transform, ARR2),
    "imager_fit": (e_imager_fit, ARR2), "imager_plots": (e_imager_plots, ARR2), "persimage_transform": (e_persimage, ALL3),
    "exact_landscape": (e_exact, ALL3), "approx_landscape": (e_approx, ARR2), "landscaper": (e_landscaper, ARR2), "death_vector": (e_death_vector, ARR2),
    "exact_ops": (e_exact_ops, ALL3), "approx_ops": (e_approx_ops, ARR2), "plot_diagrams": (e_plot_diagrams, ARR2),
    "matching_plots": (e_matching_plots, ARR2), "kernels_weights": (e_kernels, ARR2),
}
GRAPH_ENTRIES = ["mgh_pair", "mgh_collection"]
POISONABLE = ["bottleneck", "wasserstein", "heat", "sliced_wasserstein", "persistent_entropy", "imager_transform", "imager_fit", "exact_landscape",
              "approx_landscape", "landscaper", "death_vector"]
BAD_INPUTS = {"nan_birth": lambda: np.array([[float("nan") if i == 4 else float(i), float(i + 2)] for i in range(9)]),
              "nan": lambda: np.array([[float(i), float("nan") if i == 3 else float(i + 2)] for i in range(9)]), "allnan": lambda: np.full((2, 2), float("nan")), "shape3": lambda: np.zeros((3,)),
              "born_after_dying": lambda: np.array([[1.0, 0.0]]), "none": lambda: None, "three_columns_nan": lambda: np.array([[0.0, 1.0, float("nan")]])}

OPTS = {
    "bottleneck": dict_of({"matching": st.booleans()}), "wasserstein": dict_of({"matching": st.booleans()}),
    "heat": dict_of({"sigma": st.sampled_from([0.4, 1.0, 10.0])}), "sliced_wasserstein": dict_of({"M": st.sampled_from([1, 10, 50])}),
    "persistent_entropy": dict_of({"single": st.booleans(), "normalize": st.booleans()}),
    "imager_transform": dict_of({"single": st.booleans(), "skew": st.booleans(), "weight": st.sampled_from(["persistence", "linear_ramp"]),
                                               "wp": st.just({}), "kernel": st.sampled_from(["gaussian", "uniform"]), "kp": st.just({}), "narrow": st.booleans()}),
    "imager_fit_transform": dict_of({"single": st.booleans(), "skew": st.booleans(), "pixel": st.sampled_from([1.0, 0.5, 0.7])}),
    "imager_fit": dict_of({"single": st.booleans(), "skew": st.booleans(), "pixel": st.sampled_from([1.0, 0.3])}),
    "imager_plots": dict_of({"skew": st.booleans()}), "persimage_transform": dict_of({"single": st.booleans(), "spread": st.sampled_from([1.0, 0.5])}),
    "exact_landscape": dict_of({"hom_deg": st.sampled_from([0, 1])}), "approx_landscape": dict_of({"hom_deg": st.sampled_from([0, 1]), "num_steps": st.sampled_from([10, 30])}),
    "landscaper": dict_of({"hom_deg": st.sampled_from([0, 1]), "flatten": st.booleans(), "start": st.sampled_from([None, None, 0.0, 1.0, 2.0]),
                                         "stop": st.sampled_from([None, None, 12.0, 9.0, 7.0])}), "death_vector": st.just({}),
    "exact_ops": dict_of({"p": st.sampled_from([1, 2, 2.5])}), "approx_ops": dict_of({"p": st.sampled_from([1, 2, 3.5])}),
    "plot_diagrams": dict_of({"lifetime": st.booleans(), "legend": st.booleans(), "labels": st.sampled_from(["none", "full", "short", "str"]),
                                            "matching": st.booleans()}), "matching_plots": dict_of({"kind": st.sampled_from(["b", "w"])}),
    "kernels_weights": dict_of({"cov": st.sampled_from([0.0, 0.5, 1.35])}),
}


def fix_opts(name, o):
    o = dict(o)
    if name == "imager_transform":
        o["wp"] = {"n": 1.0} if o["weight"] == "persistence" else {"low": 0.0, "high": 1.0, "start": 0.0, "end": 3.0}
        o["kp"] = {"width": 1.5, "height": 2.5}
        if o["kernel"] == "gaussian":
            # ordinary covariance, or a narrow strongly correlated one (pixel corners hundreds of sd away: the high-correlation branch)
            o["kp"] = {"sigma": [[0.02, 0.019], [0.019, 0.02]]} if o.get("narrow") else {"sigma": [[1.0, 0.5], [0.5, 2.0]]}
    return o


@st.composite
def pooled_diagram(draw):
    n = draw(st.integers(2, 6))
    pts = []
    for _ in range(n):
        b = draw(st.integers(0, 6))
        pts.append([b, b + draw(st.integers(1, 6))])
    if len({p[0] for p in pts}) < 2:
        pts[0] = [pts[0][0] + 1, pts[0][1] + 2]
    if len({p[1] - p[0] for p in pts}) < 2:
        pts[-1] = [pts[-1][0], pts[-1][1] + 1]
    return {"pts": pts, "form": draw(st.sampled_from(FORMS))}


@st.composite
def op(draw, rejected_weight=1):
    kind = draw(st.sampled_from(["call"] * 6 + ["repeat"] * 2 + ["graph"] + ["inf"] * 2 + ["rejected"] * rejected_weight))
    if kind == "rejected":
        # a call on INVALID input (NaN coordinates, wrong shape, a bar born after dying, None) whose outcome - an exception or a
        # meaningless number - is ignored, as a caller's try/except would; what is checked is that it leaves nothing behind
        return {"kind": "rejected", "fn": draw(st.sampled_from(POISONABLE)), "bad": draw(st.sampled_from(sorted(BAD_INPUTS) + ["nan_birth", "nan_birth"])), "pos": draw(st.integers(0, 1)),
                "other": draw(st.integers(0, 3))}
    if kind == "inf":
        return {"kind": "inf", "fn": draw(st.sampled_from(sorted(INF_ENTRIES))), "opt": draw(INF_OPTS)}
    if kind == "repeat":
        return {"kind": "repeat", "k": draw(st.integers(0, 40))}
    if kind == "graph":
        return {"kind": "graph", "fn": draw(st.sampled_from(GRAPH_ENTRIES)), "seed": draw(st.integers(0, 2 ** 31)), "i": draw(st.integers(0, 1))}
    fn = draw(st.sampled_from(sorted(ENTRIES)))
    return {"kind": "call", "fn": fn, "a": draw(st.integers(0, 3)), "b": draw(st.integers(0, 3)), "opt": draw(OPTS[fn])}


@st.composite
def history(draw, max_ops=15, rejected_weight=1):
    return {"dgms": [draw(pooled_diagram()) for _ in range(draw(st.integers(2, 4)))],
            "inf": {"pts": draw(pooled_diagram())["pts"], "n_inf": draw(st.integers(1, 2)), "form": draw(st.sampled_from(["float", "float32"]))},
            "graphs": [{"g": draw(G.connected_graph(2, 6)), "fmt": draw(st.sampled_from(G.FORMATS)), "sym": draw(st.booleans())} for _ in range(2)],
            "ops": [draw(op(rejected_weight)) for _ in range(draw(st.integers(3, max_ops)))]}


def run_history(case, ctx):
    pool = [as_form(d["pts"], d["form"]) for d in case["dgms"]]
    forms = [d["form"] for d in case["dgms"]]
    graphs = [G.adjacency(g["g"], g["fmt"], g["sym"]) for g in case["graphs"]]
    def inf_array(form):
        rows = [[float(b), float(d)] for b, d in case["inf"]["pts"]] + [[float(case["inf"]["pts"][i][0]), float("inf")] for i in range(case["inf"]["n_inf"])]
        return np.array(rows, dtype=np.float32 if form == "float32" else float)

    infd = inf_array(case["inf"]["form"])
    inf_snap = snapshot(infd)
    snaps = [snapshot(x) for x in pool]
    gsnaps = [snapshot(x) for x in graphs]
    log = []           # (description, thunk, digest)
    used = set()
    n_repeat = n_swap = n_rejected = n_sandwich = 0

    def check_pool(step):
        for i, x in enumerate(pool):
            ctx.require(snapshot(x) == snaps[i], "argument_modified",
                        lambda: "after %s: pooled diagram %d (%s form) changed: now %r" % (step, i, forms[i], x if isinstance(x, list) else x.tolist()))
        for i, x in enumerate(graphs):
            ctx.require(snapshot(x) == gsnaps[i], "argument_modified", lambda: "after %s: pooled graph %d (%s) changed" % (step, i, case["graphs"][i]["fmt"]))
        ctx.require(snapshot(infd) == inf_snap, "argument_modified",
                    lambda: "after %s: the pooled %s diagram with infinite deaths changed: now %s" % (step, case["inf"]["form"], infd.tolist()))

    def guarded(thunk):
        with warnings.catch_warnings():
            warnings.simplefilter("ignore")
            return ctx.call(thunk)

    for n, o in enumerate(case["ops"]):
        if o["kind"] == "repeat":
            if not log:
                continue
            desc, thunk, dig = log[o["k"] % len(log)]
            again = digest(guarded(thunk))
            n_repeat += 1
            ctx.require(again == dig, "not_repeatable", lambda: "op %d: repeating '%s' after %d other calls gives a different result" % (n, desc, len(log)))
            check_pool("repeat of " + desc)
            continue
        if o["kind"] == "inf":
            f = INF_ENTRIES[o["fn"]]
            opt = o["opt"]

            def thunk(f=f, opt=opt):
                return f(infd, opt)
            desc = "%s(%s diagram with %d infinite deaths, %s)" % (o["fn"], case["inf"]["form"], case["inf"]["n_inf"], opt)
            res = guarded(thunk)
            log.append((desc, thunk, digest(res)))
            used.add(o["fn"])
            check_pool(desc)
            other_form = "float" if case["inf"]["form"] == "float32" else "float32"
            alt = inf_array(other_form)
            keep = snapshot(alt)
            guarded(lambda: f(alt, opt))
            n_swap += 1
            ctx.require(snapshot(alt) == keep, "argument_modified", lambda: "%s modified its %s argument (diagram with infinite deaths)" % (o["fn"], other_form))
            continue
        if o["kind"] == "rejected":
            fnr, _acc = ENTRIES[o["fn"]]
            if "nan" in o["bad"] and o["fn"] in ("exact_landscape", "approx_landscape", "landscaper", "death_vector"):
                # the landscape sweep does not terminate on NaN coordinates; that is invalid input (outside every property), and a
                # caller cannot catch a hang, so this combination is not part of the sequence space
                continue
            bad = BAD_INPUTS[o["bad"]]()
            good = pool[o["other"] % len(pool)]
            args = [bad, good] if o["pos"] == 0 else [good, bad]
            optr = fix_opts(o["fn"], {"single": o["pos"] == 0, "weight": "persistence", "kernel": "gaussian", "matching": True})
            # sandwich: a valid call of the same entry point before and after the rejected one must give bit-identical results
            va, vb = pool[(o["other"] + 1) % len(pool)], good
            fva = forms[(o["other"] + 1) % len(pool)] if forms[(o["other"] + 1) % len(pool)] in _acc else None
            fvb = forms[o["other"] % len(pool)] if forms[o["other"] % len(pool)] in _acc else None
            valid = None
            if fva and fvb:
                optv = fix_opts(o["fn"], {"single": False, "weight": "persistence", "kernel": "gaussian", "matching": True})
                valid = lambda: fnr([va, vb], optv)
                before = digest(guarded(valid))
            try:
                guarded(lambda: fnr(args, optr))
            except Violation:
                pass            # the outcome of a call on invalid input is not judged
            n_rejected += 1
            check_pool("a rejected call %s(%s)" % (o["fn"], o["bad"]))
            if valid is not None:
                n_sandwich += 1
                after = digest(guarded(valid))
                ctx.require(after == before, "not_repeatable",
                            lambda: "op %d: %s on two pooled diagrams gives a different result after an intervening call of the same function on invalid input (%s) "
                                    "whose exception the caller caught" % (n, o["fn"], o["bad"]))
            continue
        if o["kind"] == "graph":
            seed = o["seed"]
            if o["fn"] == "mgh_pair":
                i = o["i"] % 2

                def thunk(i=i, seed=seed):
                    np.random.seed(seed)
                    return gromov_hausdorff(graphs[i], graphs[1 - i])
            else:
                def thunk(seed=seed):
                    np.random.seed(seed)
                    return gromov_hausdorff(graphs)
            desc = "%s(seed=%d)" % (o["fn"], seed)
            res = guarded(thunk)
            log.append((desc, thunk, digest(res)))
            used.add(o["fn"])
            check_pool(desc)
            continue
        fn, accepted = ENTRIES[o["fn"]]
        ia, ib = o["a"] % len(pool), o["b"] % len(pool)
        opt = fix_opts(o["fn"], o["opt"])
        desc = "%s(dgm%d:%s, dgm%d:%s, %s)" % (o["fn"], ia, forms[ia], ib, forms[ib], opt)

        def conv(i, form):
            # the pooled object itself when its own form is accepted, else an equal-valued float array
            return pool[i] if forms[i] == form else as_form(case["dgms"][i]["pts"], form)

        fa = forms[ia] if forms[ia] in accepted else "float"
        fb = forms[ib] if forms[ib] in accepted else "float"

        def thunk(fn=fn, ia=ia, ib=ib, fa=fa, fb=fb, opt=opt):
            return fn([conv(ia, fa), conv(ib, fb)], opt)

        res = guarded(thunk)
        log.append((desc, thunk, digest(res)))
        used.add(o["fn"])
        check_pool(desc)
        # representation independence: equal values in every other accepted form
        base = numeric(res)
        for form in accepted:
            if form == fa and form == fb:
                continue
            args = [as_form(case["dgms"][ia]["pts"], form), as_form(case["dgms"][ib]["pts"], form)]
            keep = [snapshot(x) for x in args]
            other = numeric(guarded(lambda: fn(args, opt)))
            n_swap += 1
            ctx.require([snapshot(x) for x in args] == keep, "argument_modified",
                        lambda: "%s modified its %s-form argument" % (o["fn"], form))
            if "float32" in (form, fa, fb):
                # single-precision arrays are exercised for purity and repeatability only: the statement names lists, integer and
                # floating-point arrays of EQUAL value, and single-precision arithmetic inside a routine (e.g. a float32 grid whose
                # half-way ties fall the other way) is a different computation, not a different representation of the same one
                continue
            # (sliced_wasserstein used to project with float32 direction vectors - repaired, DESIGN 9.3 - and was compared to 1e-5 here)
            rel = 1e-9
            ok = len(other) == len(base) and all((math.isnan(u) and math.isnan(v)) or close(u, v, max(1.0, abs(u)), rel=rel) for u, v in zip(base, other))
            ctx.require(ok, "representation_dependent",
                        lambda: "%s: result for %s-form inputs differs from %s/%s-form inputs (%d vs %d numbers; first difference %s)"
                        % (o["fn"], form, fa, fb, len(other), len(base), next(((u, v) for u, v in zip(base, other) if not close(u, v, max(1.0, abs(u)), rel=rel)), None)))
    ctx.label("entry_points=%d" % min(len(used), 8), "with_rejected_call" if n_rejected else None, *("fn:" + u for u in sorted(used)))
    ctx.label("rejected_call_between_two_valid_ones" if n_sandwich else None)
    ctx.nontrivial((len(case["ops"]) >= 6 and len(used) >= 4 and n_repeat >= 1 and n_swap >= 1) or n_sandwich >= 1)


@st.composite
def s_mgh_seeded(draw):
    return {"g": draw(G.connected_graph(8, 18)), "h": draw(G.connected_graph(8, 18)), "seed": draw(st.integers(0, 2 ** 32 - 1)),
            "fmt": draw(st.sampled_from(G.FORMATS)), "collection": draw(st.booleans())}


def check_mgh_seeded(case, ctx):
    """the one randomised routine on graphs large enough for the random choices of the upper-bound heuristic to matter: under a fixed
    NumPy seed the result is the same every time, whatever was drawn from the global generator in between"""
    g, h = case["g"], case["h"]
    A, B = G.adjacency(g, case["fmt"], True), G.adjacency(h, "dense", False)
    snaps = [snapshot(A), snapshot(B)]
    outs = []
    for k in range(4):
        np.random.seed(case["seed"])
        if k == 2:
            np.random.random(7)          # other use of the global generator before the seed is set again has no influence
            np.random.seed(case["seed"])
        res = ctx.call(gromov_hausdorff, [A, B, A]) if case["collection"] else ctx.call(gromov_hausdorff, A, B)
        outs.append(digest(res))
    ctx.label("n=%d,%d" % (g["n"], h["n"]), "collection" if case["collection"] else "pair")
    ctx.nontrivial(g["n"] >= 10 and h["n"] >= 10)
    ctx.require(all(o == outs[0] for o in outs), "not_repeatable",
                lambda: "gromov_hausdorff under np.random.seed(%d) returned different results in 4 calls on graphs with %d and %d vertices" % (case["seed"], g["n"], h["n"]))
    ctx.require([snapshot(A), snapshot(B)] == snaps, "argument_modified", "gromov_hausdorff modified an adjacency matrix")
    # a different seed may give a different (still valid) upper bound, never a different lower bound
    np.random.seed((case["seed"] + 1) % 2 ** 32)
    res2 = ctx.call(gromov_hausdorff, A, B)
    np.random.seed(case["seed"])
    res1 = ctx.call(gromov_hausdorff, A, B)
    ctx.require(float(res1[0]) == float(res2[0]), "lower_bound_depends_on_seed", lambda: "lower bounds %r and %r under two seeds" % (res1[0], res2[0]))
    ctx.label("ub_depends_on_seed" if float(res1[1]) != float(res2[1]) else None)


def VALID_DEFAULT(case):
    if "fmt" in case and "g" in case:
        return G.valid_graph(case["g"]) and G.valid_graph(case["h"]) and case["fmt"] in G.FORMATS
    try:
        if len(case["dgms"]) < 2 or len(case["graphs"]) != 2:
            return False
        for d in case["dgms"]:
            pts = d["pts"]
            if len(pts) < 2 or any(len(p) != 2 or not p[1] > p[0] or p[0] != int(p[0]) or p[1] != int(p[1]) for p in pts):
                return False
            if len({p[0] for p in pts}) < 2 or len({p[1] - p[0] for p in pts}) < 2 or d["form"] not in FORMS:
                return False
        for g in case["graphs"]:
            if not G.valid_graph(g["g"]) or g["g"]["n"] < 2:
                return False
        for o in case["ops"]:
            if o["kind"] == "call" and o["fn"] not in ENTRIES:
                return False
            if o["kind"] == "rejected" and (o["fn"] not in POISONABLE or o["bad"] not in BAD_INPUTS or o["pos"] not in (0, 1)):
                return False
        i = case["inf"]
        if len(i["pts"]) < 2 or i["n_inf"] < 1 or any(len(p) != 2 or not p[1] > p[0] for p in i["pts"]) or i["form"] not in ("float", "float32"):
            return False
    except Exception:
        return False
    return True


CLAUSES = [
    Clause("history", history(15), run_history, quick=640, thorough=8000,
           rule="3..15 steps over 19 diagram entry points, 6 entry points fed the diagram with infinite deaths, + 2 graph entry points; non-trivial = (>= 6 steps, >= 4 distinct entry points, at least "
                "one repeat and one representation swap) or a rejected call sandwiched between two valid ones"),
    Clause("rejected_calls", history(8, rejected_weight=12), run_history, quick=960, thorough=12000,
           rule="as history with 3..8 steps of which about half are calls on INVALID input sandwiched between two identical valid calls of the same entry point"),
    Clause("mgh_seeded", s_mgh_seeded(), check_mgh_seeded, quick=800, thorough=8000,
           rule="gromov_hausdorff (pair and collection call) on graphs with 8..18 vertices, four calls under the same np.random.seed with other draws from "
                "the global generator in between: bit-identical results, arguments untouched; lower bound independent of the seed; non-trivial = both graphs >= 10 vertices"),
    Clause("long_history", history(40), run_history, quick=64, thorough=1600,
           rule="as history with up to 40 steps"),
]
