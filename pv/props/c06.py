"""C06 - returned matchings certify the reported bottleneck / Wasserstein distance."""
import numpy as np
from hypothesis import strategies as st

from persim import bottleneck, wasserstein

from ..core import Clause, close
from ..oracles import matching as M
from ..strategies import dict_of, diagram_family, valid_family
from ._dist import EMPTY_FORMS, as_input, call_quiet, coord_scale, pair_labels

HASHSEEDS = "vary"
FUZZ = ["bottleneck_matching", "wasserstein_matching"]
RULE = ("Pairs of diagrams (0..8 points; lattice ties / ulp-perturbed / floats; duplicates, diagonal points, every empty form); "
        "validity predicate over the returned matching, no tie-break assumed; shards run under PYTHONHASHSEED 0..15.")
ASSUMPTIONS = ["finite diagrams only (the statement quantifies over finite diagrams)",
               "an empty diagram is read as the one-point diagram [(0,0)] with index 0, as the statement says"]


def certify(ctx, kind, A, B, dist, match):
    pair = M.linf if kind == "b" else M.l2
    dg = M.diag_b if kind == "b" else M.diag_w
    A1 = A if A else [[0.0, 0.0]]
    B1 = B if B else [[0.0, 0.0]]
    m, n = len(A1), len(B1)
    scale, npts = coord_scale(A, B)
    scale = max(scale, 1e-300) * (npts + 1 if kind == "w" else 1)
    match = np.asarray(match)
    ctx.require(match.ndim == 2 and match.shape[1] == 3, "shape", lambda: "matching has shape %s" % (match.shape,))
    seen_a, seen_b = [], []
    costs = []
    kinds = set()
    for row in match.tolist():
        i, j, c = row
        ctx.require(float(i).is_integer() and float(j).is_integer(), "noninteger_index", lambda: "row %s" % row)
        i, j = int(i), int(j)
        ctx.require(-1 <= i < m and -1 <= j < n, "index_range", lambda: "row %s with |A|=%d |B|=%d" % (row, m, n))
        ctx.require(not (i == -1 and j == -1), "diag_diag_row", lambda: "row %s" % row)
        if i >= 0:
            seen_a.append(i)
        if j >= 0:
            seen_b.append(j)
        if i >= 0 and j >= 0:
            want = pair(A1[i], B1[j])
            kinds.add("cross")
        elif i >= 0:
            want = dg(A1[i])
            kinds.add("diag")
        else:
            want = dg(B1[j])
            kinds.add("diag")
        ctx.require(close(c, want, scale), "row_cost",
                    lambda: "row %s: cost should be %r under the distance's own rule" % (row, want))
        costs.append(c)
    ctx.require(sorted(seen_a) == list(range(m)), "cover_A",
                lambda: "indices of dgm1 in matching: %s, expected each of 0..%d once" % (sorted(seen_a), m - 1))
    ctx.require(sorted(seen_b) == list(range(n)), "cover_B",
                lambda: "indices of dgm2 in matching: %s, expected each of 0..%d once" % (sorted(seen_b), n - 1))
    total = max(costs) if kind == "b" else float(np.sum(costs))
    ctx.require(close(total, dist, scale), "certificate",
                lambda: "%s of row costs = %r but reported distance = %r" % ("max" if kind == "b" else "sum", total, dist))
    return kinds


def make_check(kind):
    fn = bottleneck if kind == "b" else wasserstein

    def check(case, ctx):
        fam = case["fam"]
        A, B = fam["dgms"]
        pair_labels(ctx, fam, A, B)
        a = as_input(A, case["ea"], case["as_list"])
        b = as_input(B, case["eb"], case["as_list"])
        plain, _ = call_quiet(ctx, fn, a, b)
        res, _ = call_quiet(ctx, fn, a, b, matching=True)
        ctx.require(isinstance(res, tuple) and len(res) == 2, "return_form", lambda: "got %r" % (res,))
        dist, match = res
        ctx.require(dist == plain, "distance_changes_with_flag", lambda: "matching=True gives %r, without %r" % (dist, plain))
        kinds = certify(ctx, kind, A, B, dist, match)
        ctx.label("rows:" + "+".join(sorted(kinds)))
        ctx.nontrivial(len(A) > 0 and len(B) > 0 and kinds == {"cross", "diag"})
        # and the certified value is the true optimum (brute force when feasible)
        if M.n_matchings(len(A), len(B)) <= 2000:
            ref, _ = M.brute(A, B, kind)
            sc, npts = coord_scale(A, B)
            ctx.require(close(dist, ref, sc * (npts + 1)), "not_optimal", lambda: "distance %r, definition %r" % (dist, ref))
    return check


s_pairs = dict_of({
    "fam": diagram_family(count=2, min_size=0, max_size=8, dup_bias=True),
    "ea": st.sampled_from(EMPTY_FORMS), "eb": st.sampled_from(EMPTY_FORMS), "as_list": st.sampled_from([False, False, True, "narrow"])})

_rule = ("0..8 points each; every index of each diagram exactly once, -1 for the diagonal, no (-1,-1) row, third column = cost "
         "recomputed from the INPUT points (L-inf or (d-b)/2; Euclidean or (d-b)/sqrt 2), %s of costs == reported distance == "
         "distance without the flag (== brute force when <= 2000 matchings); non-trivial = both non-empty and the matching has "
         "both a cross row and a diagonal row")

CLAUSES = [
    Clause("bottleneck_matching", s_pairs, make_check("b"), quick=8000, thorough=100000, floors={"rows:cross+diag": 0.1},
           rule=_rule % "max"),
    Clause("wasserstein_matching", s_pairs, make_check("w"), quick=8000, thorough=100000, floors={"rows:cross+diag": 0.1},
           rule=_rule % "sum"),
]


def VALID_DEFAULT(case):
    if "fam" in case:
        return valid_family(case["fam"])
    return all(p[1] >= p[0] for p in case["A"] + case["B"])
