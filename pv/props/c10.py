"""C10 - landscape p-norms and sup-norm equal the integrals they name."""
import copy
import math

import numpy as np
from hypothesis import strategies as st

from persim import PersLandscapeApprox, PersLandscapeExact

from ..core import Clause, Skip, close, is_real_number
from ..oracles import matching as M
from ..oracles import pl
from ..strategies import dict_of, finite, valid_family
from . import _land as LD

FUZZ = ["exact_norm"]
RULE = ("Exact landscapes from generated critical pairs (1..4 depths, ordinates of either sign, zero crossings at and between breakpoints, flat and "
        "nearly flat segments), differences / sums / multiples of them and of diagram landscapes; grid landscapes from generated value arrays; "
        "p in {1,2,3,4,5,10} and real p in [1,8].")
ASSUMPTIONS = [
    "reference integral: closed form per segment with the segment split at its root (12-node Gauss-Legendre on nearly flat segments), "
    "self-checked against scipy.integrate.quad on every 8th case; comparison relative 1e-8 of the norm",
    "landscapes built from diagrams are used only when the C03 hook reports that the repeated-bar shortcut did not fire",
    "the norm of a grid landscape is the norm of the linear interpolant of its samples (what values_to_pairs represents)",
]

PS = st.one_of(st.sampled_from([1, 2, 3, 4, 5, 10, 2, 4, 1.5, 2.5]), finite(1.0, 8.0))


def p_class(p):
    if float(p).is_integer():
        return "p_odd" if int(p) % 2 else "p_even"
    return "p_fractional"


def exact_of(ctx, depths):
    return ctx.call(PersLandscapeExact, critical_pairs=copy.deepcopy(depths), hom_deg=0)


def norm_of(ctx, obj, p):
    v = ctx.call(obj.p_norm, p=p)        # keyword: the documented default p = 2 is left out on every second such call (pv/core.py)
    ctx.require(is_real_number(v), "norm_not_a_finite_real", lambda: "p_norm(%r) returned %r" % (p, v))
    return float(v)


s_exact = dict_of({"f": LD.pl_function(1, 4), "p": PS, "selfcheck": st.integers(0, 7)})


def check_exact(case, ctx):
    depths, p = case["f"], case["p"]
    feats = LD.pl_features(depths)
    ctx.label(p_class(p), *sorted(feats))
    ctx.nontrivial(("crossing" in feats and p_class(p) != "p_odd") or ("negative" in feats and p_class(p) == "p_fractional"))
    ref = pl.p_norm(depths, p)
    if case["selfcheck"] == 0:
        q = math.fsum(pl.quad_check(d, p) for d in depths) ** (1.0 / p)
        if not close(q, ref, 0, rel=1e-9) and abs(q - ref) > 1e-150:
            raise RuntimeError("closed-form integral %r disagrees with quad %r" % (ref, q))
        ctx.label("oracle_selfcheck")
    ple = exact_of(ctx, depths)
    v = norm_of(ctx, ple, p)
    ctx.require(abs(v - ref) <= 1e-8 * ref + 1e-300, "p_norm",
                lambda: "p_norm(%r)=%r, (sum of int |f|^p)^(1/p)=%r; critical pairs=%s" % (p, v, ref, depths))
    s = ctx.call(ple.sup_norm)
    ctx.require(is_real_number(s) and float(s) == pl.sup_norm(depths), "sup_norm", lambda: "sup_norm=%r, max |ordinate|=%r" % (s, pl.sup_norm(depths)))


@st.composite
def s_approx(draw):
    n = draw(st.integers(2, 30))
    k = draw(st.integers(1, 4))
    yv = st.one_of(st.integers(-4, 4).map(float), st.sampled_from([0.0, 1.0, -1.0, 1.0 + 1e-6]), finite(-5, 5).map(lambda v: 0.0 if abs(v) < 1e-3 else v))
    vals = [[draw(yv) for _ in range(n)] for _ in range(k)]
    start = draw(st.one_of(st.integers(-5, 5).map(float), finite(-10, 10)))
    return {"vals": vals, "start": start, "span": draw(st.one_of(st.integers(1, 20).map(float), finite(0.1, 50))), "p": draw(PS)}


def approx_of(ctx, case):
    vals = np.array(case["vals"], dtype=float)
    start, stop = case["start"], case["start"] + case["span"]
    return ctx.call(PersLandscapeApprox, start=start, stop=stop, num_steps=vals.shape[1], values=vals, hom_deg=0), start, stop


def check_approx(case, ctx):
    p = case["p"]
    vals = case["vals"]
    if not vals or len({len(r) for r in vals}) != 1 or len(vals[0]) < 2 or not case["span"] > 0:
        ctx.skip("malformed (shrinker)")
    pla, start, stop = approx_of(ctx, case)
    grid = np.linspace(start, stop, len(vals[0]))
    depths = [[[float(x), float(y)] for x, y in zip(grid, row)] for row in vals]
    feats = LD.pl_features(depths)
    ctx.label(p_class(p), *sorted(feats))
    ctx.nontrivial(("crossing" in feats and p_class(p) != "p_odd") or ("negative" in feats and p_class(p) == "p_fractional"))
    ref = pl.p_norm(depths, p)
    v = norm_of(ctx, pla, p)
    ctx.require(abs(v - ref) <= 1e-8 * ref + 1e-300, "p_norm_grid", lambda: "grid p_norm(%r)=%r, reference %r; values=%s grid=(%r,%r)" % (p, v, ref, vals, start, stop))
    s = ctx.call(pla.sup_norm)
    want = max(abs(x) for r in vals for x in r)
    ctx.require(is_real_number(s) and float(s) == want, "sup_norm_grid", lambda: "sup_norm=%r, max |sample|=%r" % (s, want))


s_laws = dict_of({"a": LD.pl_function(1, 3), "b": LD.pl_function(1, 3), "p": PS,
                                "c": st.one_of(st.sampled_from([-1.0, 2.0, -0.5, 3.0, 0.0]), finite(1e-3, 10), finite(-10, -1e-3))})


def check_laws(case, ctx):
    p, c = case["p"], case["c"]
    A, B = exact_of(ctx, case["a"]), exact_of(ctx, case["b"])
    ctx.label(p_class(p), *sorted(LD.pl_features(case["a"]) | LD.pl_features(case["b"])))
    na, nb = norm_of(ctx, A, p), norm_of(ctx, B, p)
    S = ctx.call(lambda: A + B)
    D = ctx.call(lambda: A - B)
    ns, nd = norm_of(ctx, S, p), norm_of(ctx, D, p)
    feats = LD.pl_features(D.critical_pairs)
    ctx.nontrivial("crossing" in feats and p_class(p) != "p_odd")
    tol = 1e-8 * (na + nb) + 1e-300
    ctx.require(ns <= na + nb + tol, "triangle", lambda: "||A+B||=%r > ||A||+||B||=%r+%r (p=%r)" % (ns, na, nb, p))
    ctx.require(nd <= na + nb + tol, "triangle_difference", lambda: "||A-B||=%r > ||A||+||B||=%r+%r (p=%r) A=%s B=%s" % (nd, na, nb, p, case["a"], case["b"]))
    ctx.require(nd >= abs(na - nb) - tol, "reverse_triangle", lambda: "||A-B||=%r < | ||A||-||B|| |=%r (p=%r) A=%s B=%s" % (nd, abs(na - nb), p, case["a"], case["b"]))
    nc = norm_of(ctx, ctx.call(lambda: c * A), p)
    ctx.require(abs(nc - abs(c) * na) <= 1e-8 * abs(c) * na + 1e-300, "homogeneity", lambda: "||%r A||=%r, |c| ||A||=%r (p=%r)" % (c, nc, abs(c) * na, p))
    z = norm_of(ctx, ctx.call(lambda: A - A), p)
    ctx.require(z == 0.0 or z <= 1e-12 * na, "self_difference_nonzero", lambda: "||A - A||=%r" % z)
    # the norm of the difference equals the integral of the difference's own PL function
    ref = pl.p_norm(D.critical_pairs, p)
    ctx.require(abs(nd - ref) <= 1e-8 * ref + 1e-300, "p_norm_of_difference",
                lambda: "||A-B||=%r, integral of its critical pairs %r (p=%r); pairs=%s" % (nd, ref, p, D.critical_pairs))


@st.composite
def s_lazy(draw):
    fam = draw(LD.bar_family(1, 6))
    return {"fam": fam, "p": draw(PS), "first": draw(st.sampled_from(["p_norm", "sup_norm"]))}


def check_lazy(case, ctx):
    """PersLandscapeExact(..., compute=False): the very first use of the object is the norm"""
    bars = case["fam"]["dgms"][0]
    p = case["p"]
    eager = LD.exact_from_bars(ctx, bars)
    if LD.shortcut_fired(eager):
        ctx.skip("exact landscape affected by the C03 finding (shortcut fired)")
    ctx.label("first:" + case["first"], p_class(p))
    ctx.nontrivial(len(bars) >= 2)
    lazy = ctx.call(PersLandscapeExact, dgms=[np.array(bars, dtype=float)], hom_deg=0, compute=False)
    ref = pl.p_norm(eager.critical_pairs, p)
    sup = pl.sup_norm(eager.critical_pairs)
    if case["first"] == "p_norm":
        v = norm_of(ctx, lazy, p)
        ctx.require(abs(v - ref) <= 1e-8 * ref + 1e-300, "p_norm_lazy", lambda: "first call p_norm(%r) on a lazily computed landscape = %r, integral %r; bars=%s" % (p, v, ref, bars))
        s = float(ctx.call(lazy.sup_norm))
    else:
        s = float(ctx.call(lazy.sup_norm))
        v = norm_of(ctx, lazy, p)
        ctx.require(abs(v - ref) <= 1e-8 * ref + 1e-300, "p_norm_lazy", lambda: "p_norm(%r) = %r, integral %r" % (p, v, ref))
    ctx.require(close(s, sup, LD.coord_scale(bars)), "sup_norm_lazy", lambda: "sup_norm on a lazily computed landscape = %r, max |ordinate| %r" % (s, sup))
    # the same for the grid class: first use of a lazily built grid landscape is a norm
    lo, hi = min(b for b, _ in bars), max(d for _, d in bars)
    kw = dict(dgms=[np.array(bars, dtype=float)], hom_deg=0, start=lo, stop=hi, num_steps=25)
    eager_g = ctx.call(PersLandscapeApprox, **kw)
    if not (isinstance(eager_g.values, np.ndarray) and eager_g.values.dtype.kind in "US"):
        lazy_g = ctx.call(PersLandscapeApprox, compute=False, **kw)
        want_sup = float(np.max(np.abs(np.asarray(eager_g.values, dtype=float))))
        want_p = float(ctx.call(eager_g.p_norm, p=p))
        if case["first"] == "p_norm":
            got_p, got_sup = float(ctx.call(lazy_g.p_norm, p=p)), float(ctx.call(lazy_g.sup_norm))
        else:
            got_sup, got_p = float(ctx.call(lazy_g.sup_norm)), float(ctx.call(lazy_g.p_norm, p=p))
        ctx.require(got_sup == want_sup and got_p == want_p, "grid_norm_lazy",
                    lambda: "lazily built grid landscape: sup %r / p-norm %r, eagerly built twin: %r / %r; bars=%s" % (got_sup, got_p, want_sup, want_p, bars))


@st.composite
def s_stab(draw):
    fam = draw(LD.bar_family(1, 7, count=2))
    if draw(st.integers(0, 3)) == 0:
        # related diagrams: D2 = D1 plus extra bars (D1 a sub-multiset of D2), so that leading landscape functions can cancel exactly
        fam["dgms"][1] = [list(b) for b in fam["dgms"][0]] + fam["dgms"][1][:3]
        fam["related"] = True
    return {"fam": fam, "p": draw(PS), "num_steps": draw(st.sampled_from([10, 25, 60, 120])), "pad": draw(st.sampled_from([0.0, 0.2]))}


def check_stability(case, ctx):
    fam = case["fam"]
    D1, D2 = fam["dgms"]
    p = case["p"]
    P1 = LD.exact_from_bars(ctx, D1)
    P2 = LD.exact_from_bars(ctx, D2)
    if LD.shortcut_fired(P1) or LD.shortcut_fired(P2):
        ctx.skip("exact landscape affected by the C03 finding (shortcut fired)")
    ctx.label("mode:" + fam["mode"], p_class(p), "sub_multiset" if fam.get("related") else None)
    diff = ctx.call(lambda: P1 - P2)
    sup = float(ctx.call(diff.sup_norm))
    db = M.bottleneck_ref(D1, D2)
    scale = LD.coord_scale(D1 + D2)
    feats = LD.pl_features(diff.critical_pairs)
    ctx.nontrivial("crossing" in feats and len(D1) >= 2 and len(D2) >= 2)
    ctx.label(*sorted(feats))
    ctx.require(sup <= db + 1e-9 * scale, "sup_exceeds_bottleneck", lambda: "sup|lambda(D1)-lambda(D2)|=%r > bottleneck=%r; D1=%s D2=%s" % (sup, db, D1, D2))
    v = norm_of(ctx, diff, p)
    ref = pl.p_norm(diff.critical_pairs, p)
    ctx.require(abs(v - ref) <= 1e-8 * ref + 1e-300, "p_norm_of_difference", lambda: "||P1-P2||_%r=%r vs %r; pairs=%s" % (p, v, ref, diff.critical_pairs))
    # grid landscapes on a common covering grid
    lo = min(b for b, _ in D1 + D2)
    hi = max(d for _, d in D1 + D2)
    pad = case["pad"] * (hi - lo)
    n = case["num_steps"]
    kw = dict(start=lo - pad, stop=hi + pad, num_steps=n, hom_deg=0)
    A1 = ctx.call(PersLandscapeApprox, dgms=[np.array(D1, dtype=float)], **kw)
    A2 = ctx.call(PersLandscapeApprox, dgms=[np.array(D2, dtype=float)], **kw)
    if any(isinstance(a.values, np.ndarray) and a.values.dtype.kind in "US" for a in (A1, A2)):
        ctx.label("empty_sentinel")
        return
    gd = ctx.call(lambda: A1 - A2)
    step = (hi - lo + 2 * pad) / (n - 1)
    gs = float(ctx.call(gd.sup_norm))
    ctx.require(gs <= db + step + 1e-9 * scale, "grid_sup_exceeds_bottleneck_plus_step", lambda: "grid sup %r > bottleneck %r + step %r" % (gs, db, step))
    gv = norm_of(ctx, gd, p)
    grid = np.linspace(lo - pad, hi + pad, n)
    depths = [[[float(x), float(y)] for x, y in zip(grid, row)] for row in np.asarray(gd.values, dtype=float)]
    gref = pl.p_norm(depths, p)
    ctx.require(abs(gv - gref) <= 1e-8 * gref + 1e-300, "p_norm_grid_difference", lambda: "grid ||A1-A2||_%r=%r vs %r" % (p, gv, gref))


@st.composite
def s_homog(draw):
    fam = draw(LD.bar_family(1, 6, dup_bias=True))
    return {"fam": fam, "p": draw(PS), "c": draw(st.one_of(st.sampled_from([-1.0, 2.0, 3.0, -0.5]), finite(1e-3, 10))), "how": draw(st.sampled_from(["mul", "rmul", "div"]))}


def check_homog(case, ctx):
    """landscapes built from DIAGRAMS, repeated bars likely (their depths share list objects): the norm is that of the functions the object
    represents, and scalar multiples scale it - whether or not the repeated-bar shortcut of C03's open finding fired"""
    bars = case["fam"]["dgms"][0]
    p, c = case["p"], case["c"]
    P = LD.exact_from_bars(ctx, bars)
    own = [[[float(q[0]), float(q[1])] for q in d] for d in P.critical_pairs]
    ctx.label(p_class(p), "repeated_bar" if LD.has_repeated(bars) else None, "shortcut_fired" if LD.shortcut_fired(P) else None, "how:" + case["how"])
    ctx.nontrivial(LD.has_repeated(bars) and len(bars) >= 3)
    ref = pl.p_norm(own, p)
    v = norm_of(ctx, P, p)
    ctx.require(abs(v - ref) <= 1e-8 * ref + 1e-300, "p_norm_of_diagram_landscape", lambda: "p_norm(%r)=%r, integral of its own critical pairs %r; bars=%s" % (p, v, ref, bars))
    Q = ctx.call((lambda: P * c) if case["how"] == "mul" else (lambda: c * P) if case["how"] == "rmul" else (lambda: P / (1.0 / c)))
    nq = norm_of(ctx, Q, p)
    ctx.require(abs(nq - abs(c) * ref) <= 1e-8 * abs(c) * ref + 1e-300, "homogeneity_diagram_landscape",
                lambda: "||%s by %r||_%r = %r, |c| ||P|| = %r; bars=%s" % (case["how"], c, p, nq, abs(c) * ref, bars))
    sq = float(ctx.call(Q.sup_norm))
    ctx.require(close(sq, abs(c) * pl.sup_norm(own), 0.0), "sup_homogeneity_diagram_landscape", lambda: "sup norm %r vs |c| sup %r; bars=%s" % (sq, abs(c) * pl.sup_norm(own), bars))
    after = [[[float(q[0]), float(q[1])] for q in d] for d in P.critical_pairs]
    ctx.require(after == own, "operand_modified", lambda: "the landscape changed while its multiple was taken; bars=%s" % bars)


@st.composite
def s_integer(draw):
    """integer-valued critical pairs / samples (the literal form the documentation and the repository's tests use), heights up to thousands"""
    k = draw(st.integers(1, 3))
    mag = draw(st.sampled_from([3, 40, 600, 5000, 70000]))
    depths = []
    for _ in range(k):
        n = draw(st.integers(1, 5))
        xs = sorted(draw(st.lists(st.integers(-mag, mag), min_size=n + 2, max_size=n + 2, unique=True)))
        ys = [0] + [draw(st.integers(-mag, mag)) for _ in range(n)] + [0]
        depths.append([[x, y] for x, y in zip(xs, ys)])
    n = draw(st.integers(3, 9))
    vals = [[0] + [draw(st.integers(-mag, mag)) for _ in range(n - 2)] + [0] for _ in range(k)]
    return {"int_depths": depths, "int_vals": vals, "start": draw(st.integers(-50, 50)), "span": draw(st.integers(1, 4000)),
            "p": draw(st.one_of(st.sampled_from([1, 2, 3, 4, 5, 6, 8, 10]), finite(1.0, 8.0))), "mag": mag}


def check_integer(case, ctx):
    """the same function given with integer-typed breakpoints / samples: |y|^(p+1) must not be evaluated in 64-bit integer arithmetic"""
    p = case["p"]
    depths = case["int_depths"]
    ref = pl.p_norm(depths, p)
    big = max(abs(q[1]) for d in depths for q in d) ** (p + 1) >= 2.0 ** 63
    ctx.label(p_class(p), "mag:%d" % case["mag"], "height^(p+1)>=2^63" if big else None)
    ctx.nontrivial(big)
    ple = ctx.call(PersLandscapeExact, critical_pairs=copy.deepcopy(depths), hom_deg=0)
    v = norm_of(ctx, ple, p)
    ctx.require(abs(v - ref) <= 1e-8 * ref + 1e-300, "p_norm_integer_pairs",
                lambda: "p_norm(%r)=%r, (sum of int |f|^p)^(1/p)=%r; integer critical pairs=%s" % (p, v, ref, depths))
    s = ctx.call(ple.sup_norm)
    ctx.require(is_real_number(s) and float(s) == pl.sup_norm(depths), "sup_norm", lambda: "sup_norm=%r, max |ordinate|=%r" % (s, pl.sup_norm(depths)))
    vals = np.array(case["int_vals"], dtype=np.int64)
    start, stop = case["start"], case["start"] + case["span"]
    pla = ctx.call(PersLandscapeApprox, start=start, stop=stop, num_steps=vals.shape[1], values=vals, hom_deg=0)
    grid = np.linspace(start, stop, vals.shape[1])
    gdepths = [[[float(x), float(y)] for x, y in zip(grid, row)] for row in vals]
    gref = pl.p_norm(gdepths, p)
    gv = norm_of(ctx, pla, p)
    ctx.require(abs(gv - gref) <= 1e-8 * gref + 1e-300, "p_norm_integer_samples",
                lambda: "grid p_norm(%r)=%r, reference %r; int64 values=%s grid=(%r,%r)" % (p, gv, gref, vals.tolist(), start, stop))
    # a multiple of an integer-valued landscape
    c = 3
    nc = norm_of(ctx, ctx.call(lambda: c * ple), p)
    ctx.require(abs(nc - c * ref) <= 1e-8 * c * ref + 1e-300, "homogeneity_integer_pairs", lambda: "||3 A||=%r, 3 ||A||=%r (p=%r)" % (nc, c * ref, p))


def VALID_DEFAULT(case):
    try:
        if not case["p"] >= 1:
            return False
        for k in ("f", "a", "b"):
            if k in case and not LD.valid_pl(case[k]):
                return False
        if "fam" in case and not valid_family(case["fam"], allow_diag=False, min_size=1):
            return False
        if "int_depths" in case:
            if not case["int_depths"] or not case["int_vals"] or len({len(r) for r in case["int_vals"]}) != 1 or len(case["int_vals"][0]) < 2 or not case["span"] >= 1:
                return False
            for d in case["int_depths"]:
                xs = [q[0] for q in d]
                if len(d) < 2 or any(not isinstance(v, int) for q in d for v in q) or any(a >= b for a, b in zip(xs, xs[1:])) or d[0][1] != 0 or d[-1][1] != 0:
                    return False
            if any(not isinstance(v, int) for r in case["int_vals"] for v in r) or len(case["int_vals"]) != len(case["int_depths"]):
                return False
        if "vals" in case and (not case["vals"] or len({len(r) for r in case["vals"]}) != 1 or len(case["vals"][0]) < 2 or not case["span"] > 0):
            return False
    except Exception:
        return False
    return True


_nt = "non-trivial = a segment strictly crossing zero and p not an odd integer, or negative ordinates with fractional p"
CLAUSES = [
    Clause("exact_norm", s_exact, check_exact, quick=10000, thorough=150000, floors={"crossing": 0.2, "p_even": 0.1, "p_fractional": 0.1},
           rule="PersLandscapeExact(critical_pairs).p_norm(p) vs the reference integral (rel 1e-8), result a finite real, sup_norm == max |ordinate|; " + _nt),
    Clause("grid_norm", s_approx(), check_approx, quick=6000, thorough=100000, floors={"crossing": 0.2},
           rule="PersLandscapeApprox(values).p_norm(p) vs the integral of the linear interpolant, sup_norm == max |sample|; " + _nt),
    Clause("norm_laws", s_laws, check_laws, quick=4000, thorough=60000,
           rule="triangle and reverse triangle inequality for A+B and A-B, absolute homogeneity, ||A-A|| = 0, and ||A-B|| equals the integral of "
                "the difference's own critical pairs; non-trivial = the difference has a zero-crossing segment and p is not an odd integer"),
    Clause("lazy_first_use", s_lazy(), check_lazy, quick=1500, thorough=20000,
           rule="PersLandscapeExact(dgms, compute=False) whose FIRST use is p_norm (or sup_norm): the value equals the integral of the eagerly "
                "computed twin; non-trivial = >= 2 bars"),
    Clause("diagram_multiples", s_homog(), check_homog, quick=3000, thorough=40000,
           rule="exact landscapes built from diagrams with repeated bars likely (depths share list objects): p_norm equals the integral of the object's own "
                "critical pairs, P*c / c*P / P/(1/c) scale p-norm and sup norm by |c| and leave P unchanged; non-trivial = a repeated bar and >= 3 bars"),
    Clause("integer_valued", s_integer(), check_integer, quick=3000, thorough=40000,
           rule="integer-typed critical pairs (Python ints) and int64 sample arrays with heights up to 70000: p_norm vs the reference integral of the same "
                "function, sup norm, homogeneity; non-trivial = max height^(p+1) >= 2^63 (beyond 64-bit integer arithmetic)"),
    Clause("stability", s_stab(), check_stability, quick=3000, thorough=40000,
           rule="sup|lambda(D1)-lambda(D2)| <= bottleneck (independent reference) for exact landscapes and, with + step slack, for grid landscapes on "
                "a common covering grid; p-norm of those differences vs the reference integral; non-trivial = crossing segment and >= 2 bars each"),
]
