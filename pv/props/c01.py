"""C01 - bottleneck distance equals the true min-max matching cost."""
import math

import os

import numpy as np
from hypothesis import strategies as st

from persim import bottleneck

from ..core import Clause, close
from ..oracles import matching as M
from ..strategies import dict_of, diagram_family, valid_family
from ._dist import (decimal_singleton_cases, near_identical_pair, EMPTY_FORMS, INF, as_input, call_quiet, coord_scale, has_dup, lattice_slice_cases,
                    pair_labels, small_pairs)

HASHSEEDS = "vary"   # shard i runs with PYTHONHASHSEED=i: the Hopcroft-Karp search order is a per-process configuration
FUZZ = ["value_small"]
RULE = ("Pairs of diagrams from a shared lattice (exact and one-ulp ties, duplicates, diagonal points, negative coordinates, "
        "scales 10^-6..10^6), ulp-perturbed lattice points and arbitrary floats; each shard process runs under its own "
        "PYTHONHASHSEED (0..15).")
ASSUMPTIONS = ["diagrams are (n,2) arrays / nested lists, or one of the four empty forms the function accepts",
               "brute-force definition for <= 5 points per diagram; independent reference algorithm above that"]


def cand_tie(A, B):
    vals = [M.diag_b(p) for p in A] + [M.diag_b(p) for p in B] + [M.linf(a, b) for a in A for b in B]
    vals.sort()
    for x, y in zip(vals, vals[1:]):
        if x == y or (x > 0 and y <= math.nextafter(math.nextafter(x, INF), INF)):
            if x > 0:
                return True
    return False


def check_value_small(case, ctx):
    fam = case["fam"]
    A, B = fam["dgms"]
    pair_labels(ctx, fam, A, B)
    ref, info = M.brute(A, B, "b")
    tie = cand_tie(A, B)
    dup = has_dup(A) or has_dup(B)
    ctx.label("mixed_optimum" if info["mixed"] else None, "tie" if tie else None)
    ctx.nontrivial(len(A) > 0 and len(B) > 0 and (info["mixed"] or tie or dup))
    out, warns = call_quiet(ctx, bottleneck, as_input(A, case["ea"], case["as_list"]), as_input(B, case["eb"], case["as_list"]))
    ctx.require(not warns, "spurious_warning", lambda: "warning without infinite points: %s" % warns[0].message)
    scale, _ = coord_scale(A, B)
    ctx.require(np.ndim(out) == 0 and close(out, ref, scale), "value",
                lambda: "bottleneck=%r, min over all %d matchings=%r; A=%s B=%s" % (out, info["count"], ref, A, B))
    res, _ = call_quiet(ctx, bottleneck, as_input(A, case["ea"], case["as_list"]), as_input(B, case["eb"], case["as_list"]), matching=True)
    ctx.require(isinstance(res, tuple) and close(res[0], ref, scale), "value_with_matching_flag",
                lambda: "bottleneck(..., matching=True) returns distance %r, min over all matchings=%r; A=%s B=%s" % (res[0] if isinstance(res, tuple) else res, ref, A, B))


s_value_small = dict_of({
    "fam": small_pairs(6 if os.environ.get("PV_TIER") == "thorough" else 5), "ea": st.sampled_from(EMPTY_FORMS), "eb": st.sampled_from(EMPTY_FORMS),
    "as_list": st.sampled_from([False, False, True, "narrow"])})


def check_value_medium(case, ctx):
    fam = case["fam"]
    A, B = fam["dgms"]
    pair_labels(ctx, fam, A, B)
    ref = M.bottleneck_ref(A, B)
    if M.n_matchings(len(A), len(B)) <= 2000:
        bf, _ = M.brute(A, B, "b")
        ctx.label("oracle_selfcheck")
        if bf != ref:
            raise RuntimeError("reference oracle disagrees with the definition: %r vs %r on %s %s" % (ref, bf, A, B))
    ctx.nontrivial(min(len(A), len(B)) >= 1 and max(len(A), len(B)) >= 6)
    out, _ = call_quiet(ctx, bottleneck, as_input(A), as_input(B))
    scale, _ = coord_scale(A, B)
    ctx.require(close(out, ref, scale), "value",
                lambda: "bottleneck=%r, reference=%r; |A|=%d |B|=%d A=%s B=%s" % (out, ref, len(A), len(B), A, B))


s_value_medium = dict_of({"fam": diagram_family(count=2, min_size=0, max_size=30, dup_bias=True)})


@st.composite
def s_inf(draw):
    fam = draw(small_pairs(5))
    sides = draw(st.sampled_from(["A", "B", "AB"]))
    ins = {}
    for side, d in zip("AB", fam["dgms"]):
        if side in sides:
            k = draw(st.integers(1, 2))
            ins[side] = [[draw(st.integers(0, len(d))), float(draw(st.integers(-5, 5)))] for _ in range(k)]
    return {"fam": fam, "ins": ins}


def check_inf(case, ctx):
    fam = case["fam"]
    A, B = fam["dgms"]
    pair_labels(ctx, fam, A, B)
    full = {"A": [list(p) for p in A], "B": [list(p) for p in B]}
    for side, lst in case["ins"].items():
        for pos, birth in lst:
            full[side].insert(min(pos, len(full[side])), [birth, INF])
    ctx.label("inf_in:" + "".join(s for s in sorted(case["ins"]) if case["ins"][s]))
    ctx.nontrivial(len(A) + len(B) >= 2)
    ref, _ = M.brute(A, B, "b")
    out, warns = call_quiet(ctx, bottleneck, np.array(full["A"], dtype=float).reshape(-1, 2) if full["A"] else np.zeros((0, 2)),
                            np.array(full["B"], dtype=float).reshape(-1, 2) if full["B"] else np.zeros((0, 2)))
    scale, _ = coord_scale(A, B)
    ctx.require(close(out, ref, scale), "inf_influences_value",
                lambda: "with infinite points %r, finite part gives %r" % (out, ref))
    msgs = [str(w.message) for w in warns]
    for side, name in (("A", "dgm1"), ("B", "dgm2")):
        n = sum(1 for m in msgs if name in m)
        if case["ins"].get(side):
            ctx.require(n >= 1, "no_warning", lambda: "no warning naming %s; got %s" % (name, msgs))
        else:
            ctx.require(n == 0, "wrong_warning", lambda: "warning names %s which has no infinite point: %s" % (name, msgs))


def check_slice(case, ctx):
    A, B = case["A"], case["B"]
    ref, info = M.brute(A, B, "b")
    ctx.nontrivial(len(A) > 0 and len(B) > 0 and (info["mixed"] or cand_tie(A, B) or has_dup(A) or has_dup(B)))
    ctx.label("mixed_optimum" if info["mixed"] else None)
    out = ctx.call(bottleneck, as_input(A), as_input(B))
    ctx.require(out == ref, "value", lambda: "bottleneck=%r, definition=%r; A=%s B=%s" % (out, ref, A, B))


def check_cross(case, ctx):
    fam = case["fam"]
    A, B = fam["dgms"]
    ctx.nontrivial(len(A) >= 2 and len(B) >= 2)
    ref = M.bottleneck_ref(A, B)
    out = ctx.call(bottleneck, as_input(A), as_input(B))
    ctx.value(float(out))
    scale, _ = coord_scale(A, B)
    ctx.require(close(out, ref, scale), "value", lambda: "bottleneck=%r reference=%r A=%s B=%s" % (out, ref, A, B))


def check_near_identical(case, ctx):
    fam = case["fam"]
    A, B = fam["dgms"]
    ctx.label("mode:" + fam["mode"], "k=%d" % case["k"])
    ref, _ = M.brute(A, B, "b")
    ctx.nontrivial(len(A) >= 2 and ref > 0)
    out = ctx.call(bottleneck, as_input(A), as_input(B))
    ctx.require(close(out, ref, coord_scale(A, B)[0]), "value",
                lambda: "bottleneck=%r, min over all matchings=%r (nearly identical diagrams, perturbation 1e-%d); A=%s B=%s" % (out, ref, case["k"], A, B))


def check_decimal(case, ctx):
    A, B = case["A"], case["B"]
    ref, _ = M.brute(A, B, "b")
    ctx.nontrivial(len(A) > 0 and len(B) > 0)
    out = ctx.call(bottleneck, as_input(A), as_input(B))
    ctx.require(close(out, ref, coord_scale(A, B)[0]), "value", lambda: "bottleneck=%r, definition=%r; A=%s B=%s" % (out, ref, A, B))


CLAUSES = [
    Clause("value_small", s_value_small, check_value_small, quick=6400, thorough=80000, fuzz=True,
           floors={"mixed_optimum": 0.05, "tie": 0.05},
           rule="0..5 points each (0..6 in the thorough tier), all empty forms, float64 array, nested-list or narrowest-integer-array (uint8 / int16 / int32) input; oracle = minimum over ALL partial matchings; "
                "non-trivial = both non-empty and (an optimal matching mixes cross and diagonal pairs, or two candidate costs tie "
                "exactly / within 2 ulp, or a point is repeated)"),
    Clause("value_medium", s_value_medium, check_value_medium, quick=960, thorough=8000,
           rule="0..30 points each; oracle = threshold search with one-sided bipartite matchings (scipy), self-checked against "
                "the brute force whenever <= 2000 matchings; non-trivial = both non-empty and one has >= 6 points"),
    Clause("near_identical", near_identical_pair(5), check_near_identical, quick=3200, thorough=40000,
           rule="B = permuted copy of A (1..5 points) with coordinates moved by (-3..3)*10^-k*max|coord|, k in 3..15; brute-force oracle; "
                "non-trivial = >= 2 points and a non-zero true distance"),
    Clause("inf_dropped", s_inf(), check_inf, quick=1600, thorough=20000,
           rule="1..2 points with infinite death inserted at generated positions in either/both diagrams; value must equal the "
                "brute-force value of the finite parts, a UserWarning must name exactly the affected argument(s); "
                "non-trivial = >= 2 finite points overall"),
    Clause("lattice_slice", cases=lambda: lattice_slice_cases(2, 4), check=check_slice,
           rule="EXHAUSTIVE: all 23409 ordered pairs of multisets of <= 2 points on the 16-point lattice {(b,b+l): b,l in 0..3}; "
                "exact equality with the definition; non-trivial as for value_small"),
    Clause("decimal_singletons", cases=decimal_singleton_cases, check=check_decimal,
           rule="EXHAUSTIVE: all 4 x 8281 ordered pairs of diagrams with <= 1 point on {(b,b+l)*s: b in 0..9, l in 1..9} for the decimal steps "
                "s in {0.1, 0.01, 1/3, 0.7} (coordinates not exactly representable: mathematically equal candidate costs differ by an ulp); "
                "non-trivial = both non-empty"),
    Clause("lattice_slice_3", cases=lambda: lattice_slice_cases(3, 3), check=check_slice, thorough_only=True,
           rule="EXHAUSTIVE, thorough tier only: all 48400 ordered pairs of multisets of <= 3 points on the 9-point lattice {(b,b+l): b,l in 0..2}"),
    Clause("cross_hashseed", dict_of({"fam": diagram_family(count=2, min_size=1, max_size=12, dup_bias=True)}),
           check_cross, quick=60, thorough=600, cross_shard=True,
           rule="the SAME generated cases are evaluated in all 16 shard processes (PYTHONHASHSEED 0..15); results must be "
                "bit-identical across processes and equal the reference; non-trivial = >= 2 points each"),
]


def VALID_DEFAULT(case):
    if "fam" in case:
        return valid_family(case["fam"])
    return all(p[1] >= p[0] for p in case["A"] + case["B"])
