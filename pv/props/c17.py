"""C17 - mGH accepts every graph representation and degrades gracefully."""
import warnings

import numpy as np
from hypothesis import strategies as st

from persim import gromov_hausdorff

from ..core import Clause
from ..oracles import mgh


def _exact(ctx, DX, DY):
    try:
        return mgh.exact(DX, DY)
    except mgh.Budget:
        ctx.skip("exact oracle exceeded its node budget")
from . import _graph as G

FUZZ = ["formats"]
RULE = ("Connected graphs of 1..7 vertices in every container / sparsity format (nested list, dense array, csr/csc/coo/lil matrix, csr_array) x "
        "{upper-triangular, symmetric} and under relabelling; collections of 2..4 graphs in mixed formats; graphs with 2..3 components (sizes "
        "generated, ties and isolated vertices included) against a connected partner; np.random.seed(s) with generated s before every call.")
ASSUMPTIONS = [
    "exact distances by branch and bound on my own BFS metrics (as in C05)",
    "when several components tie for largest, a bracket of the distance for ANY of them is accepted (the statement admits several outputs)",
    "integer adjacency entries (0/1); dtype variations are not part of the statement",
]

fmt = st.sampled_from(G.FORMATS)
orient = st.sampled_from([False, True, "permuted"])


def gh(ctx, seed, *args, **kw):
    np.random.seed(seed)
    with warnings.catch_warnings(record=True) as w:
        warnings.simplefilter("always")
        out = ctx.call(gromov_hausdorff, *args, **kw)
    return out, [x for x in w if issubclass(x.category, UserWarning)]


def bracket_ok(ctx, lb, ub, true, what):
    lb, ub = float(lb), float(ub)
    ctx.require(lb >= 0 and float(2 * lb).is_integer() and float(2 * ub).is_integer() and lb <= ub, "malformed_bounds", lambda: "%s: lb=%r ub=%r" % (what, lb, ub))
    ctx.require(lb <= true <= ub, "does_not_bracket", lambda: "%s: (lb, ub) = (%r, %r) does not bracket the exact distance %r" % (what, lb, ub, true))


@st.composite
def s_formats(draw):
    return {"g": draw(G.connected_graph(1, 9)), "h": draw(G.connected_graph(1, 9)), "seed": draw(st.integers(0, 2 ** 32 - 1)),
            "fg": draw(fmt), "fh": draw(fmt), "sg": draw(orient), "sh": draw(orient)}


def check_formats2(case, ctx):
    g, h = case["g"], case["h"]
    true = _exact(ctx, G.dist(g), G.dist(h))
    ctx.label("fmt:" + case["fg"], "fmt:" + case["fh"], "orient:%s" % case["sg"], "orient:%s" % case["sh"])
    complete = len(g["edges"]) == g["n"] * (g["n"] - 1) // 2
    ctx.nontrivial(g["n"] >= 3 and not complete and (case["fg"] != "csr_matrix" or case["sg"]))
    ref, w0 = gh(ctx, case["seed"], G.adjacency(g, "dense"), G.adjacency(h, "dense"))
    out, warns = gh(ctx, case["seed"], G.adjacency(g, case["fg"], case["sg"]), G.adjacency(h, case["fh"], case["sh"]))
    ctx.require(not warns and not w0, "spurious_warning", lambda: "warning on connected graphs: %s" % (warns + w0)[0].message)
    bracket_ok(ctx, out[0], out[1], true, "formats %s/%s sym=%s/%s" % (case["fg"], case["fh"], case["sg"], case["sh"]))
    bracket_ok(ctx, ref[0], ref[1], true, "dense upper-triangular")
    ctx.require(float(out[0]) == float(ref[0]), "lower_bound_depends_on_representation",
                lambda: "lb=%r in format %s/%s (symmetric %s/%s) vs %r for dense upper-triangular input" % (out[0], case["fg"], case["fh"], case["sg"], case["sh"], ref[0]))


@st.composite
def s_relabel(draw):
    g = draw(G.connected_graph(2, 7))
    h = draw(G.connected_graph(1, 7))
    return {"g": g, "h": h, "perm": draw(st.permutations(list(range(g["n"])))), "seed": draw(st.integers(0, 2 ** 32 - 1)), "fg": draw(fmt), "sg": draw(orient)}


def check_relabel(case, ctx):
    g, h = case["g"], case["h"]
    if sorted(case["perm"]) != list(range(g["n"])):
        ctx.skip("malformed permutation (shrinker)")
    g2 = G.relabel(g, case["perm"])
    true = _exact(ctx, G.dist(g), G.dist(h))
    ctx.nontrivial(g["n"] >= 3 and case["perm"] != sorted(case["perm"]))
    out, _ = gh(ctx, case["seed"], G.adjacency(g2, case["fg"], case["sg"]), G.adjacency(h, "dense"))
    bracket_ok(ctx, out[0], out[1], true, "relabelled input")


@st.composite
def s_collection(draw):
    k = draw(st.integers(2, 4))
    return {"graphs": [draw(G.connected_graph(1, 6)) for _ in range(k)], "fmts": [draw(fmt) for _ in range(k)],
            "syms": [draw(orient) for _ in range(k)], "seed": draw(st.integers(0, 2 ** 32 - 1))}


def check_collection(case, ctx):
    gs = case["graphs"]
    k = len(gs)
    if k < 2 or len(case["fmts"]) != k or len(case["syms"]) != k:
        ctx.skip("malformed collection (shrinker)")
    ctx.label("k=%d" % k)
    ctx.nontrivial(k >= 3 and len({f for f in case["fmts"]}) >= 2)
    As = [G.adjacency(g, f, s) for g, f, s in zip(gs, case["fmts"], case["syms"])]
    out, warns = gh(ctx, case["seed"], As)
    ctx.require(isinstance(out, tuple) and len(out) == 2, "return_form", lambda: "collection call returned %r" % (out,))
    lbs, ubs = np.asarray(out[0]), np.asarray(out[1])
    ctx.require(lbs.shape == (k, k) and ubs.shape == (k, k), "matrix_shape", lambda: "shapes %s %s for %d graphs" % (lbs.shape, ubs.shape, k))
    ctx.require(np.array_equal(lbs, lbs.T) and np.array_equal(ubs, ubs.T), "not_symmetric", lambda: "lbs=%s ubs=%s" % (lbs.tolist(), ubs.tolist()))
    ctx.require(np.all(np.diag(lbs) == 0) and np.all(np.diag(ubs) == 0), "nonzero_diagonal", lambda: "diagonals %s %s" % (np.diag(lbs), np.diag(ubs)))
    Ds = [G.dist(g) for g in gs]
    for i in range(k):
        for j in range(i + 1, k):
            bracket_ok(ctx, lbs[i, j], ubs[i, j], _exact(ctx, Ds[i], Ds[j]), "collection entry [%d,%d]" % (i, j))


def dtype_boundary_cases():
    """paths whose diameter sits at the width limit of the smallest-sufficient signed integer type (int8 holds distances up to 127), in every
    container format and edge orientation, against the one-point and the two-point graph: the distance is known in closed form"""
    for n in (126, 127, 128, 129, 130, 131):
        for fi, f in enumerate(G.FORMATS):
            for oi, o in enumerate([False, True, "permuted"]):
                if (fi + oi + n) % 2:            # half of the combinations, alternating, to bound the cost
                    continue
                for m in (1, 2):
                    yield {"n": n, "fmt": f, "orient": o, "m": m, "seed": n * 31 + fi}


def check_dtype_boundary(case, ctx):
    n, m = case["n"], case["m"]
    g = {"n": n, "edges": [[i, i + 1] for i in range(n - 1)]}
    h = {"n": m, "edges": [[0, 1]] if m == 2 else []}
    ctx.label("diameter=%d" % (n - 1), "fmt:" + case["fmt"])
    ctx.nontrivial(n - 1 >= 127)
    out, warns = gh(ctx, case["seed"], G.adjacency(g, case["fmt"], case["orient"]), G.adjacency(h, "dense", False))
    ctx.require(not warns, "spurious_warning", lambda: "warning on connected graphs: %s" % warns[0].message)
    # every map from the path to <= 2 points has distortion >= diam - (m - 1); the map onto one point (or the two halves) attains it
    exact = 0.5 * (n - 1 - (m - 1))
    bracket_ok(ctx, float(out[0]), float(out[1]), exact, "path with %d vertices (diameter %d) vs the %d-point graph" % (n, n - 1, m))


@st.composite
def s_disconnected(draw):
    ncomp = draw(st.integers(2, 3))
    comps = [draw(G.connected_graph(1, 4)) for _ in range(ncomp)]
    n = sum(c["n"] for c in comps)
    edges = []
    off = 0
    for c in comps:
        edges += [[i + off, j + off] for i, j in c["edges"]]
        off += c["n"]
    perm = draw(st.permutations(list(range(n))))
    g = G.relabel({"n": n, "edges": edges}, perm)
    return {"g": g, "h": draw(G.connected_graph(1, 6)), "seed": draw(st.integers(0, 2 ** 32 - 1)), "fg": draw(fmt), "sg": draw(orient),
            "first": draw(st.booleans())}


def check_disconnected(case, ctx):
    g, h = case["g"], case["h"]
    comps = mgh.components(g["n"], [tuple(e) for e in g["edges"]])
    if len(comps) < 2:
        ctx.skip("graph is connected (shrinker)")
    big = max(len(c) for c in comps)
    largest = [c for c in comps if len(c) == big]
    ctx.label("components=%d" % len(comps), "tie_for_largest" if len(largest) > 1 else "unique_largest",
              "isolated_vertex" if any(len(c) == 1 for c in comps) else None, "fmt:" + case["fg"])
    ctx.nontrivial(big >= 2)
    A, B = G.adjacency(g, case["fg"], case["sg"]), G.adjacency(h, "dense")
    out, warns = gh(ctx, case["seed"], A, B) if case["first"] else gh(ctx, case["seed"], B, A)
    ctx.require(len(warns) >= 1, "no_warning_for_disconnected_graph", "a disconnected graph was processed without a warning")
    DH = G.dist(h)
    cands = []
    for c in largest:
        n2, e2 = mgh.induced(g["n"], g["edges"], c)
        cands.append(_exact(ctx, mgh.bfs_distances(n2, [tuple(e) for e in e2]), DH))
    lb, ub = float(out[0]), float(out[1])
    ok = any(lb <= t <= ub for t in cands)
    ctx.require(lb >= 0 and lb <= ub and float(2 * lb).is_integer() and float(2 * ub).is_integer(), "malformed_bounds", lambda: "lb=%r ub=%r" % (lb, ub))
    ctx.require(ok, "does_not_bracket_largest_component",
                lambda: "(lb, ub)=(%r, %r) brackets none of the exact distances %s of the largest component(s) %s; G=%s H=%s" % (lb, ub, cands, largest, g, h))


def VALID_DEFAULT(case):
    try:
        if "graphs" in case:
            return all(G.valid_graph(g) for g in case["graphs"]) and len(case["graphs"]) >= 2 and len(case["fmts"]) == len(case["graphs"]) == len(case["syms"])
        if "first" in case:
            return G.valid_graph(case["g"], connected=False) and G.valid_graph(case["h"]) and len(mgh.components(case["g"]["n"], [tuple(e) for e in case["g"]["edges"]])) >= 2
        return G.valid_graph(case["g"]) and G.valid_graph(case["h"])
    except Exception:
        return False


CLAUSES = [
    Clause("formats", s_formats(), check_formats2, quick=5000, thorough=50000,
           rule="the same pair in generated formats / symmetry vs the dense upper-triangular form under the same RNG seed: both bracket the exact "
                "distance and the lower bounds are identical; non-trivial = >= 3 vertices, non-complete, and a non-CSR format or a symmetric adjacency"),
    Clause("relabelled", s_relabel(), check_relabel, quick=1500, thorough=20000,
           rule="a relabelled copy of G (any format) against H brackets the exact distance of (G, H); non-trivial = >= 3 vertices, non-identity relabelling"),
    Clause("collection", s_collection(), check_collection, quick=1200, thorough=15000,
           rule="collection call on 2..4 graphs in mixed formats: two symmetric N x N arrays with zero diagonal whose entries bracket each exact "
                "pairwise distance; non-trivial = >= 3 graphs in >= 2 formats"),
    Clause("dtype_boundaries", cases=dtype_boundary_cases, check=check_dtype_boundary,
           rule="EXHAUSTIVE slice: paths with 126..131 vertices (diameters around the int8 limit 127 of the smallest-sufficient distance type) x container "
                "formats x edge orientations (alternating half) against the one- and the two-point graph; the bounds must bracket the closed-form distance"),
    Clause("disconnected", s_disconnected(), check_disconnected, quick=2500, thorough=30000,
           rule="2..3 components (ties and isolated vertices included), either argument position, any format: a UserWarning is emitted, nothing is "
                "raised, and the bounds bracket the exact distance computed for a largest component; non-trivial = largest component >= 2 vertices"),
]
