"""Shared pieces for the persistence-image properties (C04, C11, C12, C18)."""
import math

import numpy as np
from hypothesis import strategies as st
from scipy import integrate
from scipy.special import ndtr

from persim import PersistenceImager
from persim import images_kernels, images_weights

from ..strategies import finite

# ---------------------------------------------------------------------------------------
# user-defined weights / kernels (module level so that joblib workers can unpickle them)


def w_const(birth, pers, value=1.0):
    return np.full(np.shape(birth), float(value))


def w_b_plus_p(birth, pers, scale=1.0):
    return scale * (np.abs(birth) + pers)


USER_WEIGHTS = {"const": w_const, "b_plus_p": w_b_plus_p}

# ---------------------------------------------------------------------------------------
# strategies

PIXELS = [0.25, 0.5, 1.0, 2.0, 0.125]


@st.composite
def kernel_spec(draw, pixel=1.0, allow_uniform=True, max_r=0.99):
    kinds = ["scalar", "iso", "axis", "corr", "corr", "corr"] + (["uniform"] if allow_uniform else [])
    kind = draw(st.sampled_from(kinds))
    sd = st.sampled_from([0.05, 0.2, 0.5, 1.0, 1.5, 3.0, 0.7])
    if kind == "uniform":
        return {"type": "uniform", "w": draw(sd) * 2 * pixel, "h": draw(sd) * 2 * pixel}
    vx = (draw(sd) * pixel) ** 2
    if kind == "scalar":
        return {"type": "scalar", "var": vx}
    if kind == "iso":
        return {"type": "iso", "var": vx, "form": draw(st.sampled_from(["list", "array"]))}
    vy = (draw(sd) * pixel) ** 2
    if kind == "axis":
        return {"type": "axis", "vx": vx, "vy": vy, "form": draw(st.sampled_from(["list", "array"]))}
    r = draw(st.one_of(finite(-max_r, max_r), st.sampled_from([0.2, -0.29, 0.31, 0.5, -0.74, 0.76, 0.9, -0.92, 0.93, 0.95, -0.97, 0.99, -0.99])))
    if r == 0.0:
        r = 0.5
    r = max(-max_r, min(max_r, r))
    return {"type": "corr", "vx": vx, "vy": vy, "r": r, "form": draw(st.sampled_from(["list", "array"]))}


@st.composite
def weight_spec(draw, pixel=1.0, nonneg_only=False):
    kind = draw(st.sampled_from(["persistence", "persistence", "linear_ramp", "linear_ramp", "callable"]))
    if kind == "persistence":
        return {"type": "persistence", "n": draw(st.sampled_from([1.0, 0.5, 2.0, 3.0, 1]))}
    if kind == "linear_ramp":
        start = draw(st.sampled_from([0.0, 0.5, 1.0, 2.0])) * pixel
        end = start + draw(st.sampled_from([0.5, 1.0, 3.0])) * pixel
        low = draw(st.sampled_from([0.0, 0.0, 0.5, 1.0] if nonneg_only else [0.0, 0.0, 0.5, 1.0, -1.0]))
        high = draw(st.sampled_from([1.0, 2.0, 0.25]))
        return {"type": "linear_ramp", "low": low, "high": high, "start": start, "end": end}
    name = draw(st.sampled_from(["const", "b_plus_p"]))
    return {"type": "callable", "name": name, "param": draw(st.sampled_from([1.0, 2.0, 0.5]))}


@st.composite
def grid_spec(draw, max_res=8):
    s = draw(st.sampled_from(PIXELS))
    return {"pixel": s, "b_lo": draw(st.integers(-6, 6)), "nb": draw(st.integers(1, max_res)),
            "p_lo": draw(st.integers(0, 4)), "np": draw(st.integers(1, max_res))}


@st.composite
def imager_spec(draw, max_res=8, allow_uniform=True, nonneg_only=False, max_r=0.99):
    g = draw(grid_spec(max_res))
    return {"grid": g, "kernel": draw(kernel_spec(g["pixel"], allow_uniform, max_r)),
            "weight": draw(weight_spec(g["pixel"], nonneg_only)),
            # every keyword (of the constructor and of the built-in weight functions) whose value equals its documented default is left out
            "omit_defaults": draw(st.booleans())}


@st.composite
def points_bp(draw, grid, min_size=0, max_size=5):
    """points in birth-persistence coordinates: inside / on the border of / up to 2 widths outside the region (pers >= 0)"""
    s = grid["pixel"]
    b0, b1 = grid["b_lo"] * s, (grid["b_lo"] + grid["nb"]) * s
    p0, p1 = grid["p_lo"] * s, (grid["p_lo"] + grid["np"]) * s
    w, h = b1 - b0, p1 - p0
    n = draw(st.integers(min_size, max_size))
    pts = []
    for _ in range(n):
        where = draw(st.sampled_from(["in", "in", "in", "border", "node", "out"]))
        if where == "in":
            b, p = draw(finite(b0, b1)), draw(finite(p0, p1))
        elif where == "node":
            b, p = b0 + draw(st.integers(0, grid["nb"])) * s, p0 + draw(st.integers(0, grid["np"])) * s
        elif where == "border":
            b = draw(st.sampled_from([b0, b1]))
            p = draw(finite(p0, p1))
        else:
            b, p = draw(finite(b0 - 2 * w, b1 + 2 * w)), draw(finite(max(0.0, p0 - 2 * h), p1 + 2 * h))
        pts.append([b, max(p, 0.0)])
    return pts


# ---------------------------------------------------------------------------------------
# building the real object from a spec (public API only)

def kernel_args(k):
    if k["type"] == "uniform":
        return "uniform", {"width": k["w"], "height": k["h"]}
    if k["type"] == "scalar":
        return "gaussian", {"sigma": k["var"]}
    if k["type"] == "iso":
        m = [[k["var"], 0.0], [0.0, k["var"]]]
    elif k["type"] == "axis":
        m = [[k["vx"], 0.0], [0.0, k["vy"]]]
    else:
        c = k["r"] * math.sqrt(k["vx"] * k["vy"])
        m = [[k["vx"], c], [c, k["vy"]]]
    return "gaussian", {"sigma": np.array(m) if k.get("form") == "array" else m}


WEIGHT_DEFAULTS = {"persistence": {"n": 1.0}, "linear_ramp": {"low": 0.0, "high": 1.0, "start": 0.0, "end": 1.0}}   # documented signatures


def weight_args(w, omit_defaults=False):
    if w["type"] in ("persistence", "linear_ramp"):
        wp = {"n": w["n"]} if w["type"] == "persistence" else {"low": w["low"], "high": w["high"], "start": w["start"], "end": w["end"]}
        if omit_defaults:
            dd = WEIGHT_DEFAULTS[w["type"]]
            wp = {k: v for k, v in wp.items() if not (isinstance(v, float) and v == dd[k])}
        return w["type"], wp
    if w["name"] == "const":
        return w_const, {"value": w["param"]}
    return w_b_plus_p, {"scale": w["param"]}


def grid_ranges(g):
    s = g["pixel"]
    return (g["b_lo"] * s, (g["b_lo"] + g["nb"]) * s), (g["p_lo"] * s, (g["p_lo"] + g["np"]) * s)


def make_imager(spec):
    g = spec["grid"]
    br, pr = grid_ranges(g)
    kern, kp = kernel_args(spec["kernel"])
    omit = bool(spec.get("omit_defaults"))
    wt, wp = weight_args(spec["weight"], omit)
    kw = dict(birth_range=br, pers_range=pr, pixel_size=g["pixel"], weight=wt, weight_params=wp, kernel=kern, kernel_params=kp)
    if omit:
        from ..core import DOCUMENTED_DEFAULTS, _is_default
        dd = DOCUMENTED_DEFAULTS["PersistenceImager"]
        full_wp = weight_args(spec["weight"])[1]
        if wt == "persistence" and full_wp == {"n": 1.0} and (g["nb"] + g["np"]) % 2 == 0:
            kw.pop("weight")            # the documented default weight with its documented default parameter; in the other half
            kw.pop("weight_params")     # of the cases weight_params={} reaches the weight function's own default n
        if kern == "gaussian" and isinstance(kp.get("sigma"), list) and kp["sigma"] == [[1.0, 0.0], [0.0, 1.0]]:
            kw.pop("kernel")
            kw.pop("kernel_params")
        kw = {k: v for k, v in kw.items() if not (k in ("birth_range", "pers_range", "pixel_size") and _is_default(v, dd[k]))}
    return PersistenceImager(**kw)


def to_bd(pts_bp):
    return [[b, b + p] for b, p in pts_bp]


def effective_bp(pts_bp, skew):
    """the birth-persistence values the routine itself sees: with skew=True it is handed (b, b+p) and
    recomputes (b+p)-b in float64, which can differ from p in the last bit (or be 0 for tiny p)"""
    if not skew:
        return [list(q) for q in pts_bp]
    return [[b, (b + p) - b] for b, p in pts_bp]


# ---------------------------------------------------------------------------------------
# reference: weights and pixel masses (no persim computation involved)

def weight_ref(w, b, p):
    if w["type"] == "persistence":
        return p ** w["n"]
    if w["type"] == "linear_ramp":
        if p < w["start"]:
            return w["low"]
        if p > w["end"]:
            return w["high"]
        return (p - w["start"]) * (w["high"] - w["low"]) / (w["end"] - w["start"]) + w["low"]
    if w["name"] == "const":
        return w["param"]
    return w["param"] * (abs(b) + p)


def _interval_mass_normal(lo, hi, mu, sd):
    a, b = (lo - mu) / sd, (hi - mu) / sd
    if a > 0:   # use the upper tail for accuracy
        return float(ndtr(-a) - ndtr(-b))
    return float(ndtr(b) - ndtr(a))


def pixel_mass_ref(k, mu, blo, bhi, plo, phi):
    """probability mass the kernel centred at mu=(birth, pers) assigns to [blo,bhi] x [plo,phi]"""
    mx, my = mu
    if k["type"] == "uniform":
        w, h = k["w"], k["h"]
        ox = max(0.0, min(bhi, mx + w / 2) - max(blo, mx - w / 2))
        oy = max(0.0, min(phi, my + h / 2) - max(plo, my - h / 2))
        return ox * oy / (w * h)
    if k["type"] in ("scalar", "iso"):
        sx = sy = math.sqrt(k["var"])
        r = 0.0
    else:
        sx, sy = math.sqrt(k["vx"]), math.sqrt(k["vy"])
        r = k.get("r", 0.0)
    if r == 0.0:
        return _interval_mass_normal(blo, bhi, mx, sx) * _interval_mass_normal(plo, phi, my, sy)
    sc = sy * math.sqrt((1 - r) * (1 + r))
    slope = r * sy / sx

    def f(x):
        m = my + slope * (x - mx)
        return math.exp(-0.5 * ((x - mx) / sx) ** 2) / (sx * math.sqrt(2 * math.pi)) * _interval_mass_normal(plo, phi, m, sc)

    lo, hi = max(blo, mx - 40 * sx), min(bhi, mx + 40 * sx)
    if hi <= lo:
        return 0.0
    cand = [mx, mx + (plo - my) / slope, mx + (phi - my) / slope]
    cand += [c + d for c in cand[1:] for d in (-6 * sc / abs(slope), 6 * sc / abs(slope))]
    cand += [mx - 8 * sx, mx + 8 * sx]
    pts = sorted({c for c in cand if lo < c < hi})
    val, err = integrate.quad(f, lo, hi, epsabs=1e-14, epsrel=1e-12, limit=200, points=pts or None)
    return float(val)


def image_ref(spec, pts_bp, br=None, pr=None, res=None):
    """reference image from the *public* geometry: pixel (i,j) = [B0+i s, B0+(i+1)s] x [P0+j s, P0+(j+1)s]"""
    g = spec["grid"]
    s = g["pixel"]
    if br is None:
        br, pr = grid_ranges(g)
        res = (g["nb"], g["np"])
    img = np.zeros(res)
    wsum = 0.0
    for b, p in pts_bp:
        w = weight_ref(spec["weight"], b, p)
        wsum += abs(w)
        if w == 0.0:
            continue
        for i in range(res[0]):
            for j in range(res[1]):
                img[i, j] += w * pixel_mass_ref(spec["kernel"], (b, p), br[0] + i * s, br[0] + (i + 1) * s,
                                                pr[0] + j * s, pr[0] + (j + 1) * s)
    return img, wsum


def kernel_class(k):
    if k["type"] == "corr":
        a = abs(k["r"])
        return "corr:" + ("<0.3" if a < 0.3 else "<0.75" if a < 0.75 else "<0.925" if a < 0.925 else ">=0.925")
    return k["type"]


def is_fast_path(k):
    return k["type"] in ("scalar", "iso")


def valid_spec(spec):
    try:
        g = spec["grid"]
        if not (g["pixel"] > 0 and g["nb"] >= 1 and g["np"] >= 1):
            return False
        k = spec["kernel"]
        if k["type"] == "uniform":
            return k["w"] > 0 and k["h"] > 0
        if k["type"] in ("scalar", "iso"):
            return k["var"] > 0
        if not (k["vx"] > 0 and k["vy"] > 0):
            return False
        if k["type"] == "corr" and not (0 < abs(k["r"]) < 1):
            return False
        w = spec["weight"]
        if w["type"] == "linear_ramp" and not w["end"] > w["start"]:
            return False
        if w["type"] == "persistence" and not w["n"] > 0:
            return False
    except Exception:
        return False
    return True
