"""C03 - exact landscape equals the k-th-largest-tent definition everywhere."""
import numpy as np
from hypothesis import strategies as st

from ..core import Clause, Violation
from ..strategies import permutation_of, valid_family
from . import _land as LD

FUZZ = ["definition"]
RULE = ("Diagrams of 1..8 bars of positive length on a shared lattice (equal births / deaths, touching, nested, overlapping bars, collisions of "
        "sweep residuals with input bars), ulp-perturbed lattice points and arbitrary floats, 20 decimal scales (1e-100 .. 1e100), generated input order, optional "
        "trailing (b, inf) bar, generated hom_deg. Equality with the definition is decided EXACTLY per input: both sides are piecewise linear and "
        "are compared on all candidate breakpoints {b_i, d_i, (b_i+d_j)/2}, the returned abscissae, all midpoints and two outside points.")
ASSUMPTIONS = [
    "a disagreement is attributed to the listed open finding iff the guarded hook reports that the repeated-bar shortcut fired "
    "(_verif_shortcut_fired > 0); any disagreement with the counter at 0 is a violation",
    "comparison tolerance 1e-9 * max|coordinate| (breakpoints are sums/halves of input coordinates)",
    "infinite bars only in ripser's H0 form (one trailing (b, inf) row), the only form the class documents",
]


@st.composite
def s_case(draw, dup_bias=False, max_size=8):
    fam = draw(LD.bar_family(1, max_size, dup_bias=dup_bias, extra_exponents=LD.EXTREME))
    bars = fam["dgms"][0]
    case = {"fam": fam, "perm": draw(permutation_of(len(bars))), "hom_deg": draw(st.sampled_from([0, 0, 0, 1, 2])),
            "pad": draw(st.booleans()), "trailing_inf": draw(st.sampled_from([None, None, None, 0.0, -1.0, 2.5]))}
    return case


def check_definition(case, ctx):
    fam = case["fam"]
    bars0 = fam["dgms"][0]
    if sorted(case["perm"]) != list(range(len(bars0))):
        ctx.skip("malformed permutation (shrinker)")
    bars = [bars0[i] for i in case["perm"]]
    labs = LD.structure_labels(bars)
    ctx.label("mode:" + fam["mode"], "n=%d" % len(bars), *sorted(labs))
    ctx.label("hom_deg=%d" % case["hom_deg"], "trailing_inf" if case["trailing_inf"] is not None else None)
    tie = bool(labs & {"equal_births", "equal_deaths", "touching", "repeated_bar"})
    pad = [[0.25, 7.5], [1.0, 2.0]] if case["pad"] else None
    ple = LD.exact_from_bars(ctx, bars, hom_deg=case["hom_deg"], pad=pad, trailing_inf=case["trailing_inf"])
    fired = LD.shortcut_fired(ple)
    ctx.label("shortcut_fired" if fired else None)
    ctx.nontrivial(len(bars) >= 3 and "overlap_not_nested" in labs and tie and not fired)
    cps = ple.critical_pairs
    ctx.require(ple.hom_deg == case["hom_deg"], "hom_deg_attr", lambda: "hom_deg attribute %r" % ple.hom_deg)
    msg = None
    try:
        LD.check_wellformed(ctx, cps, len(bars))
        msg = LD.compare_with_definition(bars, cps, LD.coord_scale(bars))
        sig = "differs_from_definition"
    except Violation as v:
        msg, sig = v.msg, v.sig
    if msg is not None:
        if fired:
            ctx.label("shortcut_fired_and_wrong")
            raise Violation("shortcut_mismatch", "repeated-bar shortcut fired %d time(s): %s; bars=%s" % (fired, msg, bars))
        raise Violation(sig, "%s; bars=%s" % (msg, bars))
    if fired:
        ctx.label("shortcut_fired_but_right")
    if case["hom_deg"] == 0 and not case["pad"]:
        # the per-depth accessor on an object whose landscape has not been computed yet (compute=False): the very first call must
        # already return the depth, and repeating it must give the same answer
        from persim import PersLandscapeExact
        arr = np.array(bars + ([[case["trailing_inf"], LD.INF]] if case["trailing_inf"] is not None else []), dtype=float)
        lazy = ctx.call(PersLandscapeExact, dgms=[arr], hom_deg=0, compute=False)
        k = len(cps) - 1
        first = ctx.call(lazy.compute_landscape_by_depth, k)
        again = ctx.call(lazy.compute_landscape_by_depth, k)
        same = [[float(v) for v in q] for q in first] == [[float(v) for v in q] for q in cps[k]] == [[float(v) for v in q] for q in again]
        ctx.require(same, "depth_accessor_differs", lambda: "compute_landscape_by_depth(%d) on a lazily built landscape: %r, then %r; critical_pairs[%d] = %r" % (k, first, again, k, cps[k]))


@st.composite
def s_intforms(draw):
    """integer-valued bars held the way users hold them: narrow integer arrays, int64 arrays, nested lists of ints"""
    n = draw(st.integers(1, 7))
    mult = draw(st.sampled_from([1, 5, 6, 10, 40, 1000]))
    shift = draw(st.sampled_from([0, 0, -8, -3, 4]))
    bars = []
    for _ in range(n):
        b = draw(st.integers(0, 12)) + shift
        bars.append([b * mult, (b + draw(st.integers(1, 12))) * mult])
    return {"ibars": bars, "form": draw(st.sampled_from(["narrow", "narrow", "int64", "list"])), "hom_deg": draw(st.sampled_from([0, 1]))}


def _narrow_dtype(vals):
    lo, hi = min(vals), max(vals)
    for dt in (np.uint8, np.int8, np.uint16, np.int16, np.int32):
        info = np.iinfo(dt)
        if info.min <= lo and hi <= info.max:
            return dt
    return np.int64


def check_intforms(case, ctx):
    """the landscape of integer-valued bars does not depend on the container / dtype the bars arrive in: sums b + d and negations
    must not be evaluated in a narrow integer dtype"""
    from persim import PersLandscapeExact
    bars = [[int(b), int(d)] for b, d in case["ibars"]]
    form = case["form"]
    flat = [v for p in bars for v in p]
    if form == "narrow":
        dt = _narrow_dtype(flat)
        arr = np.array(bars, dtype=dt)
        info = np.iinfo(dt)
        wraps = any(b + d > info.max or -d < info.min or -b < info.min for b, d in bars)
        ctx.label("dtype:" + np.dtype(dt).name, "b+d_or_negation_outside_dtype" if wraps else None)
        ctx.nontrivial(wraps and len(bars) >= 2)
    elif form == "int64":
        arr = np.array(bars, dtype=np.int64)
    else:
        arr = [list(p) for p in bars]
    ctx.label("form:" + form, "n=%d" % len(bars))
    dgms = [np.array([[0.0, 1.0]])] * case["hom_deg"] + [arr]
    # the degree as the integer type a loop over np.arange / a grid search hands over in every second case
    hd = np.int64(case["hom_deg"]) if len(bars) % 2 == 0 else case["hom_deg"]
    ctx.label("hom_deg_as:" + type(hd).__name__)
    ple = ctx.call(PersLandscapeExact, dgms=dgms, hom_deg=hd)
    fired = LD.shortcut_fired(ple)
    cps = ple.critical_pairs
    fbars = [[float(b), float(d)] for b, d in bars]
    msg = None
    try:
        LD.check_wellformed(ctx, cps, len(bars))
        msg = LD.compare_with_definition(fbars, cps, LD.coord_scale(fbars))
        sig = "differs_from_definition"
    except Violation as v:
        msg, sig = v.msg, v.sig
    if msg is not None:
        if fired:
            raise Violation("shortcut_mismatch", "repeated-bar shortcut fired %d time(s): %s; bars=%s" % (fired, msg, bars))
        raise Violation(sig, "%s; bars=%s given as %s" % (msg, bars, form if form != "narrow" else "%s array" % np.dtype(dt).name))


@st.composite
def s_xl(draw):
    return {"seed": draw(st.integers(0, 2 ** 32 - 1)), "n": draw(st.sampled_from([40, 64, 65, 66, 70, 90, 120])),
            "shape": draw(st.sampled_from(["random", "random", "staircases", "lattice"])), "hom_deg": draw(st.sampled_from([0, 1]))}


def expand_xl(sp):
    import random
    rng = random.Random(sp["seed"])
    n = sp["n"]
    bars = []
    if sp["shape"] == "lattice":
        while len(bars) < n:
            b = rng.randint(0, 40)
            bar = [float(b), float(b + rng.randint(1, 25))]
            if bar not in bars:
                bars.append(bar)
    elif sp["shape"] == "staircases":
        # separated groups of overlapping bars: gaps and touching points inside one depth
        x = 0.0
        while len(bars) < n:
            for _ in range(rng.randint(3, 12)):
                if len(bars) >= n:
                    break
                b = x + rng.uniform(0.1, 3.0)
                bars.append([b, b + rng.uniform(4.0, 9.0)])
                x = b
            x = max(d for _, d in bars) + rng.choice([0.0, rng.uniform(0.5, 5.0)])
    else:
        for _ in range(n):
            b = rng.uniform(0, 100)
            bars.append([b, b + rng.uniform(0.5, 40)])
    rng.shuffle(bars)
    return bars


def check_xl(case, ctx):
    bars = expand_xl(case)
    labs = LD.structure_labels(bars) if len(bars) <= 70 else set()
    ctx.label("n=%d" % len(bars), "shape:" + case["shape"])
    ple = LD.exact_from_bars(ctx, bars, hom_deg=case["hom_deg"])
    fired = LD.shortcut_fired(ple)
    ctx.nontrivial(len(bars) >= 66 and not fired)
    cps = ple.critical_pairs
    msg = None
    try:
        LD.check_wellformed(ctx, cps, len(bars))
        msg = LD.compare_with_definition_np(bars, cps, LD.coord_scale(bars))
        sig = "differs_from_definition"
    except Violation as v:
        msg, sig = v.msg, v.sig
    if msg is not None:
        if fired:
            raise Violation("shortcut_mismatch", "repeated-bar shortcut fired %d time(s): %s" % (fired, msg))
        raise Violation(sig, "%s; %d bars, spec=%s" % (msg, len(bars), case))


def VALID_DEFAULT(case):
    if "ibars" in case:
        try:
            return len(case["ibars"]) >= 1 and all(len(p) == 2 and isinstance(p[0], int) and isinstance(p[1], int) and p[1] > p[0] and abs(p[1]) < 10 ** 6
                                                   for p in case["ibars"]) and case["hom_deg"] in (0, 1) and case["form"] in ("narrow", "int64", "list")
        except Exception:
            return False
    if "n" in case:
        return case["n"] >= 1 and case["shape"] in ("random", "staircases", "lattice") and case["hom_deg"] in (0, 1)
    return _valid_small(case)


def _valid_small(case):
    try:
        return valid_family(case["fam"], allow_diag=False, min_size=1) and sorted(case["perm"]) == list(range(len(case["fam"]["dgms"][0]))) \
            and case["hom_deg"] in (0, 1, 2)
    except Exception:
        return False


_rule = ("non-trivial = >= 3 bars, some pair overlaps without nesting (a Case-III step is forced), at least one tie (equal births, equal deaths, "
         "touching or repeated bars) and the shortcut did not fire")

CLAUSES = [
    Clause("definition", s_case(False), check_definition, quick=24000, thorough=320000, fuzz=True,
           rule="phase A - bars drawn independently (repeats only by lattice coincidence); " + _rule),
    Clause("definition_repeated", s_case(True), check_definition, quick=8000, thorough=100000,
           rule="phase B - repeated bars likely (each new bar copies an earlier one with probability 1/4); " + _rule),
    Clause("definition_large", s_case(False, 14), check_definition, quick=2000, thorough=30000,
           rule="up to 14 bars; " + _rule),
    Clause("integer_arrays", s_intforms(), check_intforms, quick=4000, thorough=50000,
           rule="1..7 integer-valued bars given as the narrowest integer array that holds them (uint8 / int8 / uint16 / int16 / int32), an int64 array "
                "or a nested list of ints: same exact decision against the definition; non-trivial = some b + d or a negated coordinate "
                "lies outside the range of the array's dtype"),
    Clause("definition_xl", s_xl(), check_xl, quick=48, thorough=320,
           rule="40..120 bars expanded from a generated seed (random floats; separated staircases of overlapping bars with gaps and touching "
                "points; distinct lattice bars), shuffled; same exact decision with a vectorised oracle; non-trivial = >= 66 bars and shortcut not fired"),
]
