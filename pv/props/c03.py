"""C03 - exact landscape equals the k-th-largest-tent definition everywhere."""
import numpy as np
from hypothesis import strategies as st

from ..core import Clause, Violation
from ..strategies import permutation_of, valid_family
from . import _land as LD

FUZZ = ["definition"]
RULE = ("Diagrams of 1..8 bars of positive length on a shared lattice (equal births / deaths, touching, nested, overlapping bars, collisions of "
        "sweep residuals with input bars), ulp-perturbed lattice points and arbitrary floats, 20 decimal scales (1e-100 .. 1e100), generated input order, optional "
        "trailing (b, inf) bar, generated hom_deg. Equality with the definition is decided EXACTLY per input: both sides are piecewise linear and "
        "are compared on all candidate breakpoints {b_i, d_i, (b_i+d_j)/2}, the returned abscissae, all midpoints and two outside points.")
ASSUMPTIONS = [
    "a disagreement is attributed to the listed open finding iff the guarded hook reports that the repeated-bar shortcut fired "
    "(_verif_shortcut_fired > 0); any disagreement with the counter at 0 is a violation",
    "comparison tolerance 1e-9 * max|coordinate| (breakpoints are sums/halves of input coordinates)",
    "infinite bars only in ripser's H0 form (one trailing (b, inf) row), the only form the class documents",
]


@st.composite
def s_case(draw, dup_bias=False, max_size=8):
    fam = draw(LD.bar_family(1, max_size, dup_bias=dup_bias, extra_exponents=LD.EXTREME))
    bars = fam["dgms"][0]
    case = {"fam": fam, "perm": draw(permutation_of(len(bars))), "hom_deg": draw(st.sampled_from([0, 0, 0, 1, 2])),
            "pad": draw(st.booleans()), "trailing_inf": draw(st.sampled_from([None, None, None, 0.0, -1.0, 2.5]))}
    return case


def check_definition(case, ctx):
    fam = case["fam"]
    bars0 = fam["dgms"][0]
    if sorted(case["perm"]) != list(range(len(bars0))):
        ctx.skip("malformed permutation (shrinker)")
    bars = [bars0[i] for i in case["perm"]]
    labs = LD.structure_labels(bars)
    ctx.label("mode:" + fam["mode"], "n=%d" % len(bars), *sorted(labs))
    ctx.label("hom_deg=%d" % case["hom_deg"], "trailing_inf" if case["trailing_inf"] is not None else None)
    tie = bool(labs & {"equal_births", "equal_deaths", "touching", "repeated_bar"})
    pad = [[0.25, 7.5], [1.0, 2.0]] if case["pad"] else None
    ple = LD.exact_from_bars(ctx, bars, hom_deg=case["hom_deg"], pad=pad, trailing_inf=case["trailing_inf"])
    fired = LD.shortcut_fired(ple)
    ctx.label("shortcut_fired" if fired else None)
    ctx.nontrivial(len(bars) >= 3 and "overlap_not_nested" in labs and tie and not fired)
    cps = ple.critical_pairs
    ctx.require(ple.hom_deg == case["hom_deg"], "hom_deg_attr", lambda: "hom_deg attribute %r" % ple.hom_deg)
    msg = None
    try:
        LD.check_wellformed(ctx, cps, len(bars))
        msg = LD.compare_with_definition(bars, cps, LD.coord_scale(bars))
        sig = "differs_from_definition"
    except Violation as v:
        msg, sig = v.msg, v.sig
    if msg is not None:
        if fired:
            ctx.label("shortcut_fired_and_wrong")
            raise Violation("shortcut_mismatch", "repeated-bar shortcut fired %d time(s): %s; bars=%s" % (fired, msg, bars))
        raise Violation(sig, "%s; bars=%s" % (msg, bars))
    if fired:
        ctx.label("shortcut_fired_but_right")


@st.composite
def s_xl(draw):
    return {"seed": draw(st.integers(0, 2 ** 32 - 1)), "n": draw(st.sampled_from([40, 64, 65, 66, 70, 90, 120])),
            "shape": draw(st.sampled_from(["random", "random", "staircases", "lattice"])), "hom_deg": draw(st.sampled_from([0, 1]))}


def expand_xl(sp):
    import random
    rng = random.Random(sp["seed"])
    n = sp["n"]
    bars = []
    if sp["shape"] == "lattice":
        while len(bars) < n:
            b = rng.randint(0, 40)
            bar = [float(b), float(b + rng.randint(1, 25))]
            if bar not in bars:
                bars.append(bar)
    elif sp["shape"] == "staircases":
        # separated groups of overlapping bars: gaps and touching points inside one depth
        x = 0.0
        while len(bars) < n:
            for _ in range(rng.randint(3, 12)):
                if len(bars) >= n:
                    break
                b = x + rng.uniform(0.1, 3.0)
                bars.append([b, b + rng.uniform(4.0, 9.0)])
                x = b
            x = max(d for _, d in bars) + rng.choice([0.0, rng.uniform(0.5, 5.0)])
    else:
        for _ in range(n):
            b = rng.uniform(0, 100)
            bars.append([b, b + rng.uniform(0.5, 40)])
    rng.shuffle(bars)
    return bars


def check_xl(case, ctx):
    bars = expand_xl(case)
    labs = LD.structure_labels(bars) if len(bars) <= 70 else set()
    ctx.label("n=%d" % len(bars), "shape:" + case["shape"])
    ple = LD.exact_from_bars(ctx, bars, hom_deg=case["hom_deg"])
    fired = LD.shortcut_fired(ple)
    ctx.nontrivial(len(bars) >= 66 and not fired)
    cps = ple.critical_pairs
    msg = None
    try:
        LD.check_wellformed(ctx, cps, len(bars))
        msg = LD.compare_with_definition_np(bars, cps, LD.coord_scale(bars))
        sig = "differs_from_definition"
    except Violation as v:
        msg, sig = v.msg, v.sig
    if msg is not None:
        if fired:
            raise Violation("shortcut_mismatch", "repeated-bar shortcut fired %d time(s): %s" % (fired, msg))
        raise Violation(sig, "%s; %d bars, spec=%s" % (msg, len(bars), case))


def VALID_DEFAULT(case):
    if "n" in case:
        return case["n"] >= 1 and case["shape"] in ("random", "staircases", "lattice") and case["hom_deg"] in (0, 1)
    return _valid_small(case)


def _valid_small(case):
    try:
        return valid_family(case["fam"], allow_diag=False, min_size=1) and sorted(case["perm"]) == list(range(len(case["fam"]["dgms"][0]))) \
            and case["hom_deg"] in (0, 1, 2)
    except Exception:
        return False


_rule = ("non-trivial = >= 3 bars, some pair overlaps without nesting (a Case-III step is forced), at least one tie (equal births, equal deaths, "
         "touching or repeated bars) and the shortcut did not fire")

CLAUSES = [
    Clause("definition", s_case(False), check_definition, quick=24000, thorough=320000, fuzz=True,
           rule="phase A - bars drawn independently (repeats only by lattice coincidence); " + _rule),
    Clause("definition_repeated", s_case(True), check_definition, quick=8000, thorough=100000,
           rule="phase B - repeated bars likely (each new bar copies an earlier one with probability 1/4); " + _rule),
    Clause("definition_large", s_case(False, 14), check_definition, quick=2000, thorough=30000,
           rule="up to 14 bars; " + _rule),
    Clause("definition_xl", s_xl(), check_xl, quick=48, thorough=320,
           rule="40..120 bars expanded from a generated seed (random floats; separated staircases of overlapping bars with gaps and touching "
                "points; distinct lattice bars), shuffled; same exact decision with a vectorised oracle; non-trivial = >= 66 bars and shortcut not fired"),
]
