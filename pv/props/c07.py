"""C07 - bottleneck and Wasserstein obey the metric and invariance laws at any size."""
import math
import os
import random

import numpy as np
from hypothesis import strategies as st

from persim import bottleneck, wasserstein

from ..core import Clause, close
from ..oracles import matching as M
from ..strategies import dict_of, SCALE_EXPONENTS, nudge
from ._dist import call_quiet

HASHSEEDS = "vary"
TIER = os.environ.get("PV_TIER", "quick")
MAXN = 60 if TIER == "quick" else 200
RULE = ("Diagrams of up to %d points are expanded deterministically (random.Random(seed)) from a generated compact spec "
        "(seed, sizes, mode lattice/mixed/float, lattice size, decimal scale, shift) - Hypothesis' entropy buffer cannot hold "
        "hundreds of points drawn one by one; every choice is still a pure function of the generated case. Shards run under "
        "PYTHONHASHSEED 0..15." % MAXN)
ASSUMPTIONS = ["tolerance 1e-9 * (|shift| + max |coordinate|) * (number of points): the Wasserstein rotation uses cos(pi/4) != sin(pi/4) "
               "in the last bit, and translation / rescaling re-round every coordinate",
               "sizes are bounded by cost only (persim's bottleneck is O((M+N)^2 log) in pure Python): <= 60 points quick, <= 200 thorough"]

_big = st.sampled_from(list(range(20, MAXN + 1)))
sizes = st.one_of(st.integers(0, 6), st.integers(7, 25), _big, _big, _big)


def spec(count, min_size=0):
    return dict_of({
        "seed": st.integers(0, 2 ** 32 - 1),
        "sizes": st.lists(sizes.map(lambda n: max(n, min_size)), min_size=count, max_size=count),
        "mode": st.sampled_from(["lattice", "lattice", "float", "mixed", "near"]),
        "L": st.integers(3, 40),
        "k": st.sampled_from(SCALE_EXPONENTS),
        "shift": st.integers(-50, 50),
    })


def expand(sp):
    rng = random.Random(sp["seed"])
    out = []
    L = sp["L"]
    scale = 10.0 ** sp["k"]
    for n in sp["sizes"]:
        pts = []
        for _ in range(n):
            if sp["mode"] == "float":
                b = rng.uniform(-100, 100)
                ln = 0.0 if rng.random() < 0.05 else rng.uniform(1e-6, 50)
                pts.append([b, b + ln])
            else:
                b = rng.randint(0, L)
                ln = rng.randint(0, L)
                bb = (b + sp["shift"]) * scale
                dd = (b + ln + sp["shift"]) * scale
                if sp["mode"] == "mixed" and ln > 0:
                    bb = nudge(bb, rng.randint(-2, 2))
                    dd = nudge(dd, rng.randint(-2, 2))
                if sp["mode"] == "near" and ln > 0:
                    eps = 10.0 ** (-rng.randint(4, 12))
                    ref = max(abs(bb), abs(dd), scale)
                    bb, d2 = bb + rng.randint(-3, 3) * eps * ref, dd + rng.randint(-3, 3) * eps * ref
                    dd = d2 if d2 > bb else bb + ln * scale
                pts.append([bb, dd])
        out.append(pts)
    return out


def arr(d):
    return np.array(d, dtype=float).reshape(-1, 2)


def scale_of(*dgms, extra=0.0):
    s = extra
    n = 1
    for d in dgms:
        n += len(d)
        for p in d:
            s = max(s, abs(p[0]) + extra, abs(p[1]) + extra)
    return max(s, 1e-300) * n


FN = {"b": bottleneck, "w": wasserstein}


def dist(ctx, kind, A, B):
    out, _ = call_quiet(ctx, FN[kind], arr(A), arr(B))
    ctx.require(np.ndim(out) == 0 and math.isfinite(float(out)), "not_a_finite_number", lambda: "%s distance = %r" % (kind, out))
    return float(out)


def size_labels(ctx, sp, dgms):
    ctx.label("mode:" + sp["mode"])
    m = max(len(d) for d in dgms)
    ctx.label("size:<=6" if m <= 6 else "size:7-25" if m <= 25 else "size:26-60" if m <= 60 else "size:>60")


def check_metric(case, ctx):
    X, Y, Z = expand(case["spec"])
    size_labels(ctx, case["spec"], [X, Y, Z])
    rng = random.Random(case["spec"]["seed"] ^ 0x5A5A)
    PX = list(X)
    rng.shuffle(PX)
    tol = 1e-9 * scale_of(X, Y, Z)
    nontriv = min(len(X), len(Y), len(Z)) >= 20 and PX != X
    for kind in "bw":
        dxy = dist(ctx, kind, X, Y)
        dyx = dist(ctx, kind, Y, X)
        dyz = dist(ctx, kind, Y, Z)
        dxz = dist(ctx, kind, X, Z)
        dxx = dist(ctx, kind, X, PX)
        for name, v in (("xy", dxy), ("yz", dyz), ("xz", dxz), ("xx", dxx)):
            # a diagonal point costs c * 1e-16 (either sign) under the rotation, hence -tol rather than 0
            ctx.require(v >= -tol, kind + "_negative", lambda: "d(%s) = %r" % (name, v))
        ctx.require(abs(dxx) <= tol, kind + "_reorder_nonzero", lambda: "d(X, permuted X) = %r, |X|=%d" % (dxx, len(X)))
        ctx.require(abs(dxy - dyx) <= tol, kind + "_asymmetric", lambda: "d(X,Y)=%r d(Y,X)=%r" % (dxy, dyx))
        ctx.require(dxz <= dxy + dyz + tol, kind + "_triangle", lambda: "d(X,Z)=%r > d(X,Y)+d(Y,Z)=%r+%r" % (dxz, dxy, dyz))
        ctx.label(kind + ":distinct" if len({dxy, dyz, dxz}) == 3 else kind + ":coinciding")
    ctx.nontrivial(nontriv)


s_metric = dict_of({"spec": spec(3)})


def check_invariance(case, ctx):
    X, Y = expand(case["spec"])
    size_labels(ctx, case["spec"], [X, Y])
    c = case["shift"]
    lam = case["lam"]
    rng = random.Random(case["spec"]["seed"] ^ 0xA5A5)
    lo = min([p[0] for p in X + Y] + [0.0])
    hi = max([p[1] for p in X + Y] + [1.0])
    diag = [[t, t] for t in (rng.uniform(lo, hi) for _ in range(case["ndiag"]))]
    Xd = list(X)
    for q in diag:
        Xd.insert(rng.randint(0, len(Xd)), q)
    tolb = 1e-9 * scale_of(X, Y, diag, extra=abs(c))
    ctx.nontrivial(min(len(X), len(Y)) >= 20)
    for kind in "bw":
        base = dist(ctx, kind, X, Y)
        d1 = dist(ctx, kind, Xd, Y)
        ctx.require(abs(d1 - base) <= tolb, kind + "_diagonal_points_matter",
                    lambda: "d(X + %d diagonal points, Y)=%r, d(X,Y)=%r" % (len(diag), d1, base))
        d2 = dist(ctx, kind, [[b + c, d + c] for b, d in X], [[b + c, d + c] for b, d in Y])
        ctx.require(abs(d2 - base) <= tolb, kind + "_translation",
                    lambda: "d(X+c,Y+c)=%r, d(X,Y)=%r, c=%r" % (d2, base, c))
        d3 = dist(ctx, kind, [[b * lam, d * lam] for b, d in X], [[b * lam, d * lam] for b, d in Y])
        ctx.require(abs(d3 - lam * base) <= 1e-9 * scale_of(X, Y) * lam, kind + "_scaling",
                    lambda: "d(lam X, lam Y)=%r, lam d(X,Y)=%r, lam=%r" % (d3, lam * base, lam))


s_invariance = dict_of({
    "spec": spec(2), "shift": st.one_of(st.integers(-1000, 1000).map(float), st.floats(-1e3, 1e3, allow_nan=False)),
    "lam": st.one_of(st.sampled_from([0.5, 2.0, 1e-3, 1e3, 3.0, 0.1]), st.floats(1e-3, 1e3, allow_nan=False)),
    "ndiag": st.integers(1, 10)})


def check_empty_and_order(case, ctx):
    X, Y = expand(case["spec"])
    size_labels(ctx, case["spec"], [X, Y])
    ctx.nontrivial(min(len(X), len(Y)) >= 20)
    tol = 1e-9 * scale_of(X, Y)
    pers = [d - b for b, d in X]
    db = dist(ctx, "b", X, [])
    ctx.require(abs(db - (max(pers) / 2 if pers else 0.0)) <= tol, "b_vs_empty", lambda: "d_B(X, empty)=%r, max pers/2=%r" % (db, max(pers) / 2 if pers else 0.0))
    db2 = dist(ctx, "b", [], X)
    ctx.require(abs(db2 - db) <= tol, "b_vs_empty_sym", lambda: "%r vs %r" % (db2, db))
    dw = dist(ctx, "w", X, [])
    ctx.require(abs(dw - math.fsum(pers) / math.sqrt(2)) <= tol, "w_vs_empty", lambda: "d_W(X, empty)=%r, total pers/sqrt2=%r" % (dw, math.fsum(pers) / math.sqrt(2)))
    b = dist(ctx, "b", X, Y)
    w = dist(ctx, "w", X, Y)
    ctx.require(b <= w + tol, "b_exceeds_w", lambda: "bottleneck %r > wasserstein %r" % (b, w))


s_empty = dict_of({"spec": spec(2, min_size=1)})


def check_differential(case, ctx):
    X, Y = expand(case["spec"])
    size_labels(ctx, case["spec"], [X, Y])
    ctx.nontrivial(min(len(X), len(Y)) >= 20)
    tol = 1e-9 * scale_of(X, Y)
    b = dist(ctx, "b", X, Y)
    rb = M.bottleneck_ref(X, Y)
    ctx.require(abs(b - rb) <= tol, "b_value", lambda: "bottleneck=%r reference=%r |X|=%d |Y|=%d" % (b, rb, len(X), len(Y)))
    w = dist(ctx, "w", X, Y)
    rw = M.wasserstein_ref(X, Y)
    ctx.require(abs(w - rw) <= tol, "w_value", lambda: "wasserstein=%r independent assignment reference=%r |X|=%d |Y|=%d" % (w, rw, len(X), len(Y)))


def spec_large():
    big = st.sampled_from([100, 110, 123, 150, 200, 260, 300])
    return dict_of({
        "seed": st.integers(0, 2 ** 32 - 1), "sizes": st.lists(big, min_size=2, max_size=2),
        "mode": st.sampled_from(["lattice", "float", "near", "jitter"]), "L": st.integers(20, 60), "k": st.sampled_from([0, 0, 1, -1, -3]),
        "shift": st.integers(-50, 50)})


def expand_large(sp):
    """as expand(); mode 'jitter': the second diagram is a jittered, shuffled copy of the first plus a few short bars
    (the regime of a real comparison: most points matched across, in both coordinates)"""
    if sp["mode"] == "chain":
        # X_i = (2i, 2i + H), Y_i = (2i + 1, 2i + 1 + H): every cross cost is an odd integer, the identity pairing costs 1, and at
        # threshold 1 the feasibility graph is ONE path through all 2n points - the worst case for a depth-first augmenting search
        n, H = sp["sizes"][0], 100.0 * sp["sizes"][0]
        X = [[2.0 * i, 2.0 * i + H] for i in range(n)]
        Y = [[2.0 * i + 1.0, 2.0 * i + 1.0 + H] for i in range(n)]
        return [Y, X] if sp.get("swap") else [X, Y]
    if sp["mode"] != "jitter":
        return expand(sp)
    rng = random.Random(sp["seed"])
    n = sp["sizes"][0]
    X = []
    for _ in range(n):
        b = rng.uniform(0, 100)
        X.append([b, b + rng.uniform(2, 40)])
    Y = [[b + rng.uniform(-1, 1), d + rng.uniform(-1, 1)] for b, d in X]
    Y = [[b, max(b, d)] for b, d in Y]
    rng.shuffle(Y)
    for _ in range(rng.randint(0, 4)):
        b = rng.uniform(0, 100)
        Y.append([b, b + rng.uniform(0, 1.5)])
    return [X, Y]


def check_differential_large(case, ctx):
    X, Y = expand_large(case["spec"])
    ctx.label("mode:" + case["spec"]["mode"], "MN>=10000" if len(X) * len(Y) >= 10000 else None, "M+N>=475" if len(X) + len(Y) >= 475 else None)
    ctx.nontrivial(len(X) * len(Y) >= 10000)
    tol = 1e-9 * scale_of(X, Y)
    if case["spec"]["mode"] == "chain":
        b = dist(ctx, "b", X, Y)
        ctx.require(b == 1.0, "b_value", lambda: "chain diagrams with %d points each: bottleneck=%r, the identity pairing costs 1 and every pairing costs >= 1" % (len(X), b))
        ctx.label("chain_n=%d" % len(X))
        return
    b = dist(ctx, "b", X, Y)
    rb = M.bottleneck_ref(X, Y)
    ctx.require(abs(b - rb) <= tol, "b_value", lambda: "bottleneck=%r reference=%r |X|=%d |Y|=%d" % (b, rb, len(X), len(Y)))
    w = dist(ctx, "w", X, Y)
    rw = M.wasserstein_ref(X, Y)
    ctx.require(abs(w - rw) <= tol, "w_value", lambda: "wasserstein=%r reference=%r |X|=%d |Y|=%d" % (w, rw, len(X), len(Y)))
    ctx.require(b <= w + tol, "b_exceeds_w", lambda: "bottleneck %r > wasserstein %r" % (b, w))


def large_fixed_cases():
    sizes = [(260, 260), (300, 240), (250, 250)] + ([(300, 300), (400, 200), (350, 350)] if TIER == "thorough" else [])
    for i, (m, n) in enumerate(sizes):
        for mode in ("lattice", "jitter", "float"):
            yield {"spec": {"seed": 1000 + 17 * i, "sizes": [m, n], "mode": mode, "L": 50, "k": 0, "shift": 3}}
    # chain-structured diagrams of 300 / 520 (thorough: up to 800) points each, both argument orders
    for n in [300, 520] + ([650, 800] if TIER == "thorough" else []):
        for swap in (False, True):
            yield {"spec": {"seed": n, "sizes": [n, n], "mode": "chain", "L": 50, "k": 0, "shift": 0, "swap": swap}}


_q = 1 if TIER == "quick" else 1
CLAUSES = [
    Clause("metric", s_metric, check_metric, quick=800, thorough=960,
           rule="triples X,Y,Z + a shuffled copy of X: d>=0, d(X,pi X)=0, symmetry, triangle, for both distances; non-trivial = "
                ">= 20 points in each of the three diagrams and a non-identity shuffle"),
    Clause("invariance", s_invariance, check_invariance, quick=800, thorough=960,
           rule="pairs: 1..10 diagonal points inserted, translation by c along the diagonal, rescaling by lam>0; non-trivial = >= 20 points each"),
    Clause("empty_and_order", s_empty, check_empty_and_order, quick=1600, thorough=1600,
           rule="d_B(X,0)=max pers/2, d_W(X,0)=total pers/sqrt 2, d_B<=d_W; non-trivial = >= 20 points each"),
    Clause("differential", spec(2).map(lambda s: {"spec": s}), check_differential, quick=1600, thorough=1600,
           rule="value oracle beyond brute force: bottleneck vs one-sided-matching reference (any size), wasserstein vs the independent assignment reference; "
                "non-trivial = >= 20 points each"),
    Clause("differential_large", spec_large().map(lambda s: {"spec": s}), check_differential_large, quick=48, thorough=160,
           rule="100..300 points per diagram (so M*N >= 10^4 and, for the largest, M+N >= 475), incl. a 'jitter' mode (second diagram = jittered "
                "shuffled copy + short bars): bottleneck vs the independent one-sided-matching reference, Wasserstein vs own Kuhn-Munkres; "
                "non-trivial = M*N >= 10000"),
    Clause("large_fixed", cases=large_fixed_cases, check=check_differential_large,
           rule="DETERMINISTIC slice of 9 (thorough: 18) pairs with 475..700 points in total, executed outside Hypothesis (which raises the "
                "interpreter's recursion limit while it runs a test, so size-triggered fallbacks keyed on that limit stay hidden under it); "
                "same differential oracle"),
]
