"""C15 - sliced Wasserstein is the averaged 1-D transport cost and a pseudo-metric."""
import math

import numpy as np
from hypothesis import strategies as st

from persim import sliced_wasserstein

from ..core import Clause
from ..oracles import kernels as K
from ..oracles import matching as Mt
from ..strategies import dict_of, diagram_family, finite, permutation_of, valid_family

FUZZ = ["value"]
TOL = 1e-11
RULE = ("Diagrams of 0..12 points with coordinates of either sign (shared lattice with negative shifts, ulp-perturbed, floats), "
        "M in 1..60.")
ASSUMPTIONS = [
    "tolerance 1e-11 * (sum of |coordinates| + (number of points) * |shift|): sums of up to ~50 products of float64 coordinates with float64 "
    "direction vectors (the single-precision direction vectors of the pinned release - a relative 6e-8 per component, i.e. a translation "
    "by 1e3 changed the distance by a relative 5e-5 - were repaired, DESIGN 9.3; before that repair this tolerance was 5e-6)",
    "inputs are (n,2) numpy arrays (the function reads .shape), the empty diagram is np.zeros((0,2))",
]

MS = st.one_of(st.integers(1, 60), st.sampled_from([1, 2, 3, 10, 50, 50]))


def arr(d):
    return np.array(d, dtype=float).reshape(-1, 2)


def asum(*dgms, shift=0.0):
    return sum(abs(x) + abs(shift) for d in dgms for p in d for x in p)


def sw(ctx, A, B, M):
    out = ctx.call(sliced_wasserstein, arr(A), arr(B), M=M)
    ctx.require(np.ndim(out) == 0 and math.isfinite(float(out)), "not_finite", lambda: "sliced_wasserstein = %r" % (out,))
    return float(out)


def labels(ctx, fam, M, *dgms):
    ctx.label("mode:" + fam["mode"], "M=1" if M == 1 else "M<10" if M < 10 else "M>=10")
    if any(p[0] + p[1] < 0 for d in dgms for p in d):
        ctx.label("negative_b+d")
    if any(len(d) == 0 for d in dgms):
        ctx.label("has_empty")


s_value = dict_of({"fam": diagram_family(count=2, min_size=0, max_size=12), "M": MS, "narrow": st.booleans()})


def check_value(case, ctx):
    fam = case["fam"]
    A, B = fam["dgms"]
    M = case["M"]
    labels(ctx, fam, M, A, B)
    ctx.nontrivial(len(A) > 0 and len(B) > 0 and len(A) != len(B))
    if case.get("narrow") and A and B and all(float(x).is_integer() and abs(x) < 30000 for p in A + B for x in p):
        # the same values stored in the narrowest integer dtype that holds them (uint8 / int16): b + d may exceed that dtype's range
        flat = [x for p in A + B for x in p]
        dt = np.uint8 if (min(flat) >= 0 and max(flat) <= 255) else np.int16
        ctx.label("narrow_int_dtype:" + np.dtype(dt).name)
        out = ctx.call(sliced_wasserstein, np.array(A, dtype=dt), np.array(B, dtype=dt), M=M)
        ctx.require(np.ndim(out) == 0 and math.isfinite(float(out)), "not_finite", lambda: "sliced_wasserstein = %r" % (out,))
        v = float(out)
    else:
        v = sw(ctx, A, B, M)
    ref = K.sliced_wasserstein(A, B, M)
    tol = TOL * asum(A, B)
    ctx.require(abs(v - ref) <= tol, "value",
                lambda: "sliced_wasserstein=%r, averaged 1-D transport cost=%r (tol %r) M=%d A=%s B=%s" % (v, ref, tol, M, A, B))


s_triple = dict_of({"fam": diagram_family(count=3, min_size=0, max_size=10), "M": MS,
                                  "seed": st.integers(0, 2 ** 31)})


def check_metric(case, ctx):
    import random
    fam = case["fam"]
    X, Y, Z = fam["dgms"]
    M = case["M"]
    labels(ctx, fam, M, X, Y, Z)
    PX = list(X)
    random.Random(case["seed"]).shuffle(PX)
    ctx.nontrivial(min(len(X), len(Y), len(Z)) >= 2 and PX != X)
    tol = TOL * asum(X, Y, Z)
    dxy = sw(ctx, X, Y, M)
    dyx = sw(ctx, Y, X, M)
    dyz = sw(ctx, Y, Z, M)
    dxz = sw(ctx, X, Z, M)
    dxx = sw(ctx, X, PX, M)
    ctx.require(min(dxy, dyz, dxz, dxx) >= 0, "negative", lambda: "%r" % ([dxy, dyz, dxz, dxx],))
    ctx.require(abs(dxy - dyx) <= tol, "asymmetric", lambda: "SW(X,Y)=%r SW(Y,X)=%r" % (dxy, dyx))
    ctx.require(abs(dxx) <= tol, "reorder_nonzero", lambda: "SW(X, permuted X)=%r X=%s" % (dxx, X))
    ctx.require(dxz <= dxy + dyz + tol, "triangle", lambda: "SW(X,Z)=%r > %r + %r" % (dxz, dxy, dyz))


@st.composite
def s_invariance(draw):
    fam = draw(diagram_family(count=2, min_size=0, max_size=10))
    A = fam["dgms"][0]
    lo = min([p[0] for d in fam["dgms"] for p in d] + [0.0])
    hi = max([p[1] for d in fam["dgms"] for p in d] + [fam["scale"]])
    nd = draw(st.integers(1, 4))
    diag = [[draw(st.integers(0, len(A))), draw(finite(lo, hi))] for _ in range(nd)]
    span = max(abs(lo), abs(hi))
    shift = draw(st.sampled_from([-1.0, -3.0, 2.0, -10.0, 0.5, -0.5])) * span
    return {"fam": fam, "M": draw(MS), "diag": diag, "shift": shift,
            "lam": draw(st.one_of(st.sampled_from([0.5, 2.0, 1e-3, 1e3, 3.0]), finite(1e-3, 1e3)))}


def check_invariance(case, ctx):
    fam = case["fam"]
    A, B = fam["dgms"]
    M = case["M"]
    c = case["shift"]
    lam = case["lam"]
    TA = [[b + c, d + c] for b, d in A]
    TB = [[b + c, d + c] for b, d in B]
    labels(ctx, fam, M, TA, TB)
    neg_target = any(p[0] + p[1] < 0 for p in TA + TB)
    ctx.label("translated_to_negative" if neg_target else None)
    ctx.nontrivial(len(A) > 0 and len(B) > 0 and len(A) != len(B) and neg_target)
    base = sw(ctx, A, B, M)
    Ad = [list(p) for p in A]
    for pos, t in case["diag"]:
        Ad.insert(min(pos, len(Ad)), [t, t])
    dtol = TOL * asum(Ad, B)
    v = sw(ctx, Ad, B, M)
    ctx.require(abs(v - base) <= dtol, "diagonal_points_matter", lambda: "with %d diagonal points %r, without %r" % (len(case["diag"]), v, base))
    v = sw(ctx, TA, TB, M)
    ctx.require(abs(v - base) <= TOL * asum(A, B, shift=c), "translation",
                lambda: "SW(A+c,B+c)=%r, SW(A,B)=%r, c=%r A=%s B=%s" % (v, base, c, A, B))
    v = sw(ctx, [[b * lam, d * lam] for b, d in A], [[b * lam, d * lam] for b, d in B], M)
    ctx.require(abs(v - lam * base) <= TOL * asum(A, B) * lam, "scaling", lambda: "SW(lam A, lam B)=%r, lam*SW=%r" % (v, lam * base))


s_stab = dict_of({"fam": diagram_family(count=2, min_size=0, max_size=10), "M": MS})


def check_stability(case, ctx):
    fam = case["fam"]
    A, B = fam["dgms"]
    M = case["M"]
    labels(ctx, fam, M, A, B)
    ctx.nontrivial(len(A) >= 2 and len(B) >= 2)
    v = sw(ctx, A, B, M)
    w = Mt.wasserstein_ref(A, B)
    ctx.require(v <= 2 * w + TOL * asum(A, B), "exceeds_twice_wasserstein", lambda: "SW=%r > 2*W1=%r A=%s B=%s" % (v, 2 * w, A, B))


def VALID_DEFAULT(case):
    if not valid_family(case["fam"]) or case["M"] < 1:
        return False
    if "lam" in case and not case["lam"] > 0:
        return False
    return True


CLAUSES = [
    Clause("value", s_value, check_value, quick=4000, thorough=50000, floors={"negative_b+d": 0.1},
           rule="pairs of 0..12 points, M in 1..60; oracle = float64 transcription of the averaged 1-D transport cost with diagonal "
                "projections ((b+d)/2,(b+d)/2); non-trivial = both non-empty with different sizes"),
    Clause("metric", s_triple, check_metric, quick=1500, thorough=20000,
           rule="triples: non-negativity, symmetry, zero on a shuffled copy, triangle inequality; non-trivial = >= 2 points each and a non-identity shuffle"),
    Clause("invariance", s_invariance(), check_invariance, quick=2500, thorough=30000, floors={"translated_to_negative": 0.1},
           rule="1..4 diagonal points inserted; translation along the diagonal by c in {-10..2} x span (targets with b+d<0 included); "
                "rescaling; non-trivial = both non-empty, different sizes and a translated point with b+d<0"),
    Clause("stability", s_stab, check_stability, quick=2000, thorough=25000,
           rule="SW <= 2 * W1 with W1 from the independent assignment reference; non-trivial = >= 2 points each"),
]
