"""Graph strategies and adjacency formats shared by C05 and C17."""
import numpy as np
import scipy.sparse as sps
from hypothesis import strategies as st

from ..oracles import mgh

FORMATS = ["nested_list", "dense", "csr_matrix", "csc_matrix", "coo_matrix", "lil_matrix", "csr_array",
           # block / diagonal / dictionary storage: BSR and DIA store zeros inside their blocks / diagonals without the caller writing any
           "bsr_matrix", "dia_matrix", "dok_matrix",
           # dense arrays in other memory layouts / element types (a transposed or MATLAB-loaded matrix is Fortran-ordered)
           "dense_fortran", "dense_strided", "dense_bool", "dense_float", "dense_readonly"]


@st.composite
def connected_graph(draw, min_n=1, max_n=7):
    """{"n", "edges"}: a connected simple graph: a family member or a random spanning tree (biased towards
    path-like trees so that diameters >= 3 occur) plus extra edges, in a random labelling"""
    kind = draw(st.sampled_from(["tree+", "tree+", "tree+", "path", "cycle", "star", "complete", "bipartite",
                                 "broom", "spider", "caterpillar", "double_star"]))
    n = draw(st.one_of(st.integers(min_n, max_n), st.sampled_from(list(range(min_n, max_n + 1)))))
    edges = set()
    if kind == "path" or n <= 2:
        edges = {(i, i + 1) for i in range(n - 1)}
    elif kind == "cycle":
        edges = {(i, (i + 1) % n) for i in range(n)} if n >= 3 else {(0, 1)}
    elif kind == "star":
        edges = {(0, i) for i in range(1, n)}
    elif kind == "complete":
        edges = {(i, j) for i in range(n) for j in range(i + 1, n)}
    elif kind == "bipartite":
        a = draw(st.integers(1, n - 1))
        edges = {(i, j) for i in range(a) for j in range(a, n)}
    elif kind == "broom":            # a path with a bunch of leaves at one end
        a = draw(st.integers(1, n - 1))
        edges = {(i, i + 1) for i in range(a - 1)} | {(a - 1, v) for v in range(a, n)}
    elif kind == "spider":           # legs of generated lengths meeting in vertex 0
        v = 1
        while v < n:
            ln = draw(st.integers(1, 4))
            prev = 0
            for _ in range(ln):
                if v >= n:
                    break
                edges.add((prev, v))
                prev = v
                v += 1
    elif kind == "caterpillar":      # a spine with leaves hanging off generated spine vertices
        a = draw(st.integers(1, n))
        edges = {(i, i + 1) for i in range(a - 1)}
        for v in range(a, n):
            edges.add((draw(st.integers(0, a - 1)), v))
    elif kind == "double_star":
        a = draw(st.integers(1, max(1, n - 2)))
        edges = {(0, 1)} | {(0, v) for v in range(2, 2 + a - 1)} | {(1, v) for v in range(2 + a - 1, n)}
    else:
        for v in range(1, n):
            p = v - 1 if draw(st.integers(0, 2)) else draw(st.integers(0, v - 1))
            edges.add((p, v))
        extra = draw(st.integers(0, max(0, n)))
        for _ in range(extra):
            i = draw(st.integers(0, n - 1))
            j = draw(st.integers(0, n - 1))
            if i != j:
                edges.add((min(i, j), max(i, j)))
    perm = draw(st.permutations(list(range(n))))
    es = sorted({(min(perm[i], perm[j]), max(perm[i], perm[j])) for i, j in edges if i != j})
    return {"n": n, "edges": [list(e) for e in es], "kind": kind}


def relabel(g, perm):
    return {"n": g["n"], "edges": sorted([min(perm[i], perm[j]), max(perm[i], perm[j])] for i, j in g["edges"]), "kind": g.get("kind", "?")}


def adjacency(g, fmt="dense", symmetric=False, dtype=int):
    """symmetric: False = upper triangle only, True = both triangles, "permuted" = what relabelling the rows and columns of an
    upper-triangular adjacency matrix produces: every edge stored once, in either triangle (here: below the diagonal when
    the sum of its endpoints is odd)"""
    n = g["n"]
    A = np.zeros((n, n), dtype=dtype)
    for i, j in g["edges"]:
        lo, hi = min(i, j), max(i, j)
        if symmetric == "permuted" and (lo + hi) % 2 == 1:
            A[hi, lo] = 1
        else:
            A[lo, hi] = 1
        if symmetric is True:
            A[hi, lo] = 1
    if fmt == "nested_list":
        return A.tolist()
    if fmt == "dense":
        return A
    if fmt == "dense_fortran":
        return np.asfortranarray(A)
    if fmt == "dense_strided":
        big = np.zeros((2 * n + 1, 2 * n + 1), dtype=A.dtype)
        big[1::2, 1::2] = A
        return big[1::2, 1::2]
    if fmt == "dense_bool":
        return A.astype(bool)
    if fmt == "dense_float":
        return A.astype(float)
    if fmt == "dense_readonly":
        A.setflags(write=False)
        return A
    if fmt == "csr_array":
        return sps.csr_array(A)
    return getattr(sps, fmt)(A)


def dist(g):
    return mgh.bfs_distances(g["n"], [tuple(e) for e in g["edges"]])


def valid_graph(g, connected=True):
    try:
        n = g["n"]
        if n < 1:
            return False
        for e in g["edges"]:
            if len(e) != 2 or not (0 <= e[0] < n and 0 <= e[1] < n) or e[0] == e[1]:
                return False
        if connected and len(mgh.components(n, [tuple(e) for e in g["edges"]])) != 1:
            return False
    except Exception:
        return False
    return True


def all_connected_labelled_graphs(max_n=4):
    from itertools import combinations
    out = []
    for n in range(1, max_n + 1):
        pairs = list(combinations(range(n), 2))
        for mask in range(1 << len(pairs)):
            edges = [list(p) for k, p in enumerate(pairs) if mask >> k & 1]
            g = {"n": n, "edges": edges, "kind": "enum"}
            if len(mgh.components(n, [tuple(e) for e in edges])) == 1:
                out.append(g)
    return out


@st.composite
def related_pair(draw, min_n=4, max_n=10):
    """(G, H) where H is G after 1..3 local edits (move a leaf, add a chord, delete a leaf, subdivide an edge) and a relabelling:
    similar graphs whose diameters differ by 0..2 - the regime where an unsound lower bound shows (true distance 0.5 .. 1.5)"""
    g = draw(connected_graph(min_n, max_n))
    n = g["n"]
    edges = {tuple(e) for e in g["edges"]}
    k = draw(st.integers(1, 3))
    for _ in range(k):
        kind = draw(st.sampled_from(["move_leaf", "add_chord", "delete_leaf", "subdivide", "add_leaf"]))
        deg = {v: 0 for v in range(n)}
        for a, b in edges:
            deg[a] += 1
            deg[b] += 1
        leaves = [v for v in range(n) if deg[v] == 1]
        if kind == "move_leaf" and leaves and n >= 3:
            v = leaves[draw(st.integers(0, len(leaves) - 1))]
            edges = {e for e in edges if v not in e}
            w = draw(st.integers(0, n - 1))
            if w == v:
                w = (v + 1) % n
            edges.add((min(v, w), max(v, w)))
        elif kind == "add_chord" and n >= 3:
            a = draw(st.integers(0, n - 1))
            b = draw(st.integers(0, n - 1))
            if a != b:
                edges.add((min(a, b), max(a, b)))
        elif kind == "delete_leaf" and leaves and n >= 4:
            v = leaves[draw(st.integers(0, len(leaves) - 1))]
            edges = {e for e in edges if v not in e}
            ren = {u: (u if u < v else u - 1) for u in range(n) if u != v}
            edges = {(min(ren[a], ren[b]), max(ren[a], ren[b])) for a, b in edges}
            n -= 1
        elif kind == "subdivide" and edges:
            es = sorted(edges)
            a, b = es[draw(st.integers(0, len(es) - 1))]
            edges.discard((a, b))
            edges.add((min(a, n), max(a, n)))
            edges.add((min(b, n), max(b, n)))
            n += 1
        elif kind == "add_leaf":
            w = draw(st.integers(0, n - 1))
            edges.add((w, n))
            n += 1
    h = {"n": n, "edges": sorted(list(e) for e in edges), "kind": "edited"}
    if len(mgh.components(n, [tuple(e) for e in h["edges"]])) != 1:
        h = dict(g)
    perm = draw(st.permutations(list(range(h["n"]))))
    return g, relabel(h, perm)
