"""C13 - Gaussian / uniform kernels are valid, accurate cumulative distribution functions."""
import math

import numpy as np
from hypothesis import strategies as st
from scipy.special import ndtr

from persim import images_kernels as IK

from ..core import Clause
from ..oracles import bvn
from ..strategies import dict_of, finite

RULE = ("Covariances (var_x, var_y from 1e-10 .. 1e4, correlation r from a mixture: uniform(-0.999,0.999), values at and within "
        "1e-3 / 1e-9 of the branch thresholds +-0.3, +-0.75, +-0.925, and |r| = 1 - 10^-k) and evaluation points given as standardised "
        "offsets (N(0,2^2)-like, at the mean, +-3..8 sd, far tails +-10..10^4 sd in all sign combinations).")
ASSUMPTIONS = [
    "reference = Plackett's integral by adaptive quadrature averaged with the conditional form; cases where the two differ by > 1e-10 are "
    "counted 'reference_inconclusive' and not judged (a 30-digit mpmath evaluation cross-checks a subsample)",
    "sign / monotonicity claims allow -1e-12: inclusion-exclusion and quadrature leave 1e-17-level noise",
]

THR = [0.3, 0.75, 0.925]


@st.composite
def correlation(draw):
    kind = draw(st.sampled_from(["uniform", "uniform", "threshold", "threshold", "high", "high", "small", "band"]))
    if kind == "uniform":
        return draw(finite(-0.999, 0.999))
    if kind == "band":
        lo, hi = draw(st.sampled_from([(0.3, 0.75), (0.75, 0.925), (0.75, 0.925), (0.925, 0.999)]))
        return draw(st.sampled_from([1.0, -1.0])) * draw(finite(lo, hi))
    if kind == "small":
        return draw(st.one_of(finite(-0.3, 0.3), st.sampled_from([1e-3, -1e-3, 1e-5, -1e-5, 0.01, -0.05])))
    sign = draw(st.sampled_from([1.0, -1.0]))
    if kind == "threshold":
        t = draw(st.sampled_from(THR))
        off = draw(st.sampled_from([0.0, 1e-3, -1e-3, 1e-9, -1e-9, 1e-6, -1e-6, 5e-4, -5e-4]))
        return sign * (t + off)
    k = draw(st.integers(1, 9))
    return sign * draw(st.sampled_from([1 - 10.0 ** (-k), 0.93, 0.95, 0.97, 0.99, 0.926]))


variance = st.sampled_from([1.0, 1.0, 0.25, 4.0, 1e-2, 1e2, 1e-4, 0.5, 2.0, 9.0, 1e-6, 1e-8, 1e-10, 1e4])


@st.composite
def offset(draw, far=False):
    kind = draw(st.sampled_from(["bulk", "bulk", "bulk", "mean", "mid", "far"] if far else ["bulk", "bulk", "bulk", "mean", "mid"]))
    if kind == "bulk":
        return draw(finite(-5.0, 5.0))
    if kind == "mean":
        return 0.0
    sign = draw(st.sampled_from([1.0, -1.0]))
    if kind == "mid":
        return sign * draw(finite(3.0, 8.0))
    return sign * draw(st.sampled_from([10.0, 20.0, 37.0, 40.0, 100.0, 197.0, 387.0, 1e3, 1e4]))


@st.composite
def cov_case(draw, npts=(1, 6), far=False):
    n = draw(st.integers(*npts))
    return {"mu": [draw(finite(-10, 10)), draw(finite(-10, 10))], "vx": draw(variance), "vy": draw(variance),
            "r": draw(correlation()), "z": [[draw(offset(far)), draw(offset(far))] for _ in range(n)]}


def regime(r):
    a = abs(r)
    return "|r|<0.3" if a < 0.3 else "|r|<0.75" if a < 0.75 else "|r|<0.925" if a < 0.925 else "|r|>=0.925"


def near_thr(r):
    return any(abs(abs(r) - t) <= 1e-3 for t in THR)


def setup(case):
    vx, vy, r = case["vx"], case["vy"], case["r"]
    sxy = r * math.sqrt(vx * vy)
    sigma = np.array([[vx, sxy], [sxy, vy]], dtype=float)
    mu = np.array(case["mu"], dtype=float)
    z = np.array(case["z"], dtype=float).reshape(-1, 2)
    x = mu[0] + z[:, 0] * math.sqrt(vx)
    y = mu[1] + z[:, 1] * math.sqrt(vy)
    # standardised arguments as the kernel itself will see them
    h = (x - mu[0]) / math.sqrt(vx)
    k = (y - mu[1]) / math.sqrt(vy)
    r_eff = sxy / math.sqrt(vx * vy)
    return sigma, mu, x, y, h, k, r_eff


def labels(ctx, r):
    ctx.label(regime(r), "near_threshold" if near_thr(r) else None, "r<0" if r < 0 else "r>0" if r > 0 else "r=0")


def gauss(ctx, x, y, mu, sigma):
    out = ctx.call(IK.gaussian, x, y, mu=mu, sigma=sigma)
    out = np.asarray(out, dtype=float)
    ctx.require(out.shape == np.shape(x), "shape", lambda: "output shape %s for %d points" % (out.shape, len(x)))
    return out


def check_accuracy(case, ctx):
    sigma, mu, x, y, h, k, r = setup(case)
    if r == 0.0:
        ctx.skip("r == 0 (product path, see clause product)")
    labels(ctx, r)
    out = gauss(ctx, x, y, mu, sigma)
    judged = 0
    for i in range(len(x)):
        ref, spread = bvn.ref(float(h[i]), float(k[i]), r)
        if ref is None:
            ctx.label("reference_inconclusive")
            continue
        judged += 1
        v = float(out[i])
        ctx.require(not math.isnan(v), "nan", lambda: "gaussian CDF is NaN at h=%r k=%r r=%r" % (h[i], k[i], r))
        ctx.require(abs(v - ref) <= 1e-7, "accuracy",
                    lambda: "gaussian=%r reference=%r (diff %.3g) at standardised (h,k)=(%r,%r), r=%r" % (v, ref, v - ref, h[i], k[i], r))
        ctx.require(-1e-12 <= v <= 1 + 1e-12, "range", lambda: "value %r outside [0,1]" % v)
    ctx.nontrivial(judged > 0)


def check_mp(case, ctx):
    """second opinion on the reference itself + accuracy against 30-digit arithmetic"""
    sigma, mu, x, y, h, k, r = setup(case)
    if r == 0.0:
        ctx.skip("r == 0")
    labels(ctx, r)
    out = gauss(ctx, x, y, mu, sigma)
    ctx.nontrivial(True)
    for i in range(len(x)):
        if abs(h[i]) > 30 or abs(k[i]) > 30:
            continue
        ref = bvn.mp_ref(float(h[i]), float(k[i]), r)
        mine, _ = bvn.ref(float(h[i]), float(k[i]), r)
        if mine is not None and abs(mine - ref) > 1e-11:
            raise RuntimeError("float64 reference %r disagrees with mpmath %r at %r" % (mine, ref, (h[i], k[i], r)))
        ctx.require(abs(float(out[i]) - ref) <= 1e-7, "accuracy_mp", lambda: "gaussian=%r mpmath=%r h=%r k=%r r=%r" % (out[i], ref, h[i], k[i], r))


@st.composite
def grid_case(draw):
    base = draw(cov_case(npts=(1, 1), far=False))
    def axis():
        start = draw(offset(far=True))
        steps = [draw(st.sampled_from([1e-3, 0.1, 0.5, 1.0, 3.0, 10.0, 1e-6])) for _ in range(draw(st.integers(2, 4)))]
        out = [start]
        for s in steps:
            out.append(out[-1] + s)
        return out
    base["gx"] = axis()
    base["gy"] = axis()
    return base


def check_shape_laws(case, ctx):
    sigma, mu, _, _, _, _, r = setup(dict(case, z=[[0, 0]]))
    labels(ctx, r)
    gx, gy = case["gx"], case["gy"]
    if sorted(gx) != gx or sorted(gy) != gy:
        ctx.skip("grid not ascending (shrinker)")
    X, Y = np.meshgrid(np.array(gx), np.array(gy), indexing="ij")
    x = mu[0] + X.ravel() * math.sqrt(case["vx"])
    y = mu[1] + Y.ravel() * math.sqrt(case["vy"])
    v = gauss(ctx, x, y, mu, sigma).reshape(X.shape)
    ctx.nontrivial(r != 0.0)
    ctx.require(not np.any(np.isnan(v)), "nan", lambda: "NaN in CDF grid, r=%r gx=%s gy=%s" % (r, gx, gy))
    ctx.require(np.all(v >= -1e-12) and np.all(v <= 1 + 1e-12), "range", lambda: "min %r max %r" % (v.min(), v.max()))
    dx = np.diff(v, axis=0)
    dy = np.diff(v, axis=1)
    ctx.require(np.all(dx >= -1e-12), "decreasing_in_x", lambda: "min increment in x %r, r=%r gx=%s gy=%s" % (dx.min(), r, gx, gy))
    ctx.require(np.all(dy >= -1e-12), "decreasing_in_y", lambda: "min increment in y %r, r=%r gx=%s gy=%s" % (dy.min(), r, gx, gy))
    rect = v[1:, 1:] - v[:-1, 1:] - v[1:, :-1] + v[:-1, :-1]
    ctx.require(np.all(rect >= -1e-12), "negative_rectangle_mass", lambda: "min rectangle mass %r, r=%r gx=%s gy=%s" % (rect.min(), r, gx, gy))


@st.composite
def tail_case(draw):
    base = draw(cov_case(npts=(1, 1)))
    big = st.sampled_from([40.0, 60.0, 100.0, 197.0, 387.0, 1e3, 1e4])
    base["kind"] = draw(st.sampled_from(["x_low", "y_low", "both_low", "x_high", "y_high", "both_high", "low_high", "high_low"]))
    base["a"] = draw(big)
    base["b"] = draw(big)
    base["other"] = draw(finite(-6, 6))
    return base


def check_tails(case, ctx):
    kind, a, b, o = case["kind"], case["a"], case["b"], case["other"]
    z = {"x_low": [-a, o], "y_low": [o, -a], "both_low": [-a, -b], "x_high": [a, o], "y_high": [o, a],
         "both_high": [a, b], "low_high": [-a, b], "high_low": [a, -b]}[kind]
    sigma, mu, x, y, h, k, r = setup(dict(case, z=[z]))
    labels(ctx, r)
    ctx.label("tail:" + kind)
    ctx.nontrivial(r != 0.0)
    v = float(gauss(ctx, x, y, mu, sigma)[0])
    if kind in ("x_low", "y_low", "both_low", "low_high", "high_low"):
        want = 0.0
    elif kind == "x_high":
        want = float(ndtr(k[0]))
    elif kind == "y_high":
        want = float(ndtr(h[0]))
    else:
        want = 1.0
    ctx.require(not math.isnan(v), "nan", lambda: "NaN at standardised (%r, %r), r=%r" % (h[0], k[0], r))
    ctx.require(abs(v - want) <= 1e-12, "tail_limit", lambda: "CDF=%r, limit=%r at standardised (%r, %r), r=%r" % (v, want, h[0], k[0], r))


def check_product(case, ctx):
    vx, vy = case["vx"], case["vy"]
    mu = np.array(case["mu"], dtype=float)
    z = np.array(case["z"], dtype=float).reshape(-1, 2)
    x = mu[0] + z[:, 0] * math.sqrt(vx)
    y = mu[1] + z[:, 1] * math.sqrt(vy)
    want = ndtr((x - mu[0]) / math.sqrt(vx)) * ndtr((y - mu[1]) / math.sqrt(vy))
    ctx.nontrivial(vx != vy)
    for form in ("array", "list"):
        sigma = [[vx, 0.0], [0.0, vy]]
        if form == "array":
            sigma = np.array(sigma)
        v = gauss(ctx, x, y, mu, sigma)
        ctx.require(np.all(np.abs(v - want) <= 1e-12), "product", lambda: "gaussian with zero covariance %r vs Phi*Phi %r" % (v, want))
    v2 = np.asarray(ctx.call(IK.sbvn_cdf, x, y, mu_x=mu[0], mu_y=mu[1], sigma_x=vx, sigma_y=vy))
    ctx.require(np.all(np.abs(v2 - want) <= 1e-12), "sbvn_product", lambda: "sbvn_cdf %r vs %r" % (v2, want))
    # bvn_cdf itself with sigma_xy = 0 must also be the product
    v3 = np.asarray(ctx.call(IK.bvn_cdf, x, y, mu_x=mu[0], mu_y=mu[1], sigma_xx=vx, sigma_yy=vy, sigma_xy=0.0))
    ctx.require(np.all(np.abs(v3 - want) <= 1e-12), "bvn_zero_cov", lambda: "bvn_cdf(sigma_xy=0) %r vs %r" % (v3, want))


    # documented defaults: mu=None is the origin, sigma=None the identity covariance; the sub-functions' defaults are mean 0, variance 1
    zz = np.array(case["z"], dtype=float).reshape(-1, 2)
    std = ndtr(zz[:, 0]) * ndtr(zz[:, 1])
    d1 = np.asarray(ctx.call(IK.gaussian, zz[:, 0], zz[:, 1]))
    ctx.require(np.all(np.abs(d1 - std) <= 1e-12), "gaussian_defaults", lambda: "gaussian(x, y) with default mu / sigma %r vs standard normal product %r" % (d1, std))
    d2 = np.asarray(ctx.call(IK.gaussian, x, y, mu=mu))
    want_id = ndtr(x - mu[0]) * ndtr(y - mu[1])
    ctx.require(np.all(np.abs(d2 - want_id) <= 1e-12), "gaussian_defaults", lambda: "gaussian(x, y, mu) with default sigma %r vs unit-variance product %r" % (d2, want_id))
    # documented form "sigma : float" = the equal variances of an isotropic kernel, as a Python or NumPy scalar
    x4, y4 = mu[0] + zz[:, 0] * math.sqrt(vx), mu[1] + zz[:, 1] * math.sqrt(vx)
    want4 = ndtr((x4 - mu[0]) / math.sqrt(vx)) * ndtr((y4 - mu[1]) / math.sqrt(vx))      # the standardised offsets as the routine sees them
    for sc in (float(vx), np.float64(vx), np.array(vx)):
        d4 = np.asarray(ctx.call(IK.gaussian, x4, y4, mu=mu, sigma=sc))
        ctx.require(np.all(np.abs(d4 - want4) <= 1e-12), "gaussian_scalar_sigma", lambda: "gaussian(x, y, mu, sigma=%r as %s) %r vs isotropic product %r" % (vx, type(sc).__name__, d4, want4))
    d3 = np.asarray(ctx.call(IK.gaussian, zz[:, 0] * math.sqrt(vx), zz[:, 1] * math.sqrt(vy), sigma=[[vx, 0.0], [0.0, vy]]))
    ctx.require(np.all(np.abs(d3 - std) <= 1e-12), "gaussian_defaults", lambda: "gaussian(x, y, sigma=...) with default mu %r vs %r" % (d3, std))


def check_norm_cdf(case, ctx):
    x = np.array(case["x"], dtype=float)
    ctx.nontrivial(len(x) >= 2)
    v = np.asarray(ctx.call(IK.norm_cdf, x))
    want = ndtr(x)
    ctx.require(np.all(np.abs(v - want) <= 1e-15 + 1e-13 * want), "norm_cdf", lambda: "norm_cdf %r vs %r at %r" % (v, want, x))


s_norm = dict_of({"x": st.lists(st.one_of(finite(-40, 40), finite(-8, 8), st.sampled_from([0.0, -37.5, 8.3, 1e3, -1e3])), min_size=1, max_size=8)})


@st.composite
def uniform_case(draw):
    w = draw(st.sampled_from([1.0, 0.1, 0.01, 10.0, 100.0, 0.5, 3.0]))
    h = draw(st.sampled_from([1.0, 0.1, 0.01, 10.0, 100.0, 0.5, 3.0]))
    n = draw(st.integers(1, 8))
    rel = st.one_of(finite(-1.5, 1.5), st.sampled_from([-0.5, 0.5, 0.0, -0.25, 0.25, 1.0, -1.0]))
    return {"mu": [draw(finite(-10, 10)), draw(finite(-10, 10))], "w": w, "h": h,
            "pts": [[draw(rel), draw(rel)] for _ in range(n)]}


def check_uniform(case, ctx):
    mu = np.array(case["mu"])
    w, h = case["w"], case["h"]
    p = np.array(case["pts"], dtype=float).reshape(-1, 2)
    x = mu[0] + p[:, 0] * w
    y = mu[1] + p[:, 1] * h
    ctx.nontrivial(w != h and len(p) >= 2)
    v = np.asarray(ctx.call(IK.uniform, x, y, mu=mu, width=w, height=h), dtype=float)
    fx = np.clip((x - (mu[0] - w / 2)) / w, 0, 1)
    fy = np.clip((y - (mu[1] - h / 2)) / h, 0, 1)
    want = fx * fy
    ctx.require(np.all(np.abs(v - want) <= 1e-12), "uniform_cdf", lambda: "uniform %r vs closed form %r; rel pts %s w=%r h=%r" % (v, want, case["pts"], w, h))


@st.composite
def s_big_call(draw):
    base = draw(cov_case(npts=(1, 1), far=False))
    base["n"] = draw(st.sampled_from([20000, 30000, 50000, 90000, 16384, 16385]))
    base["span"] = draw(st.sampled_from([3.0, 6.0, 12.0]))
    return base


def check_big_call(case, ctx):
    """one kernel call on tens of thousands of points (what transform does on a fine grid) must equal the same points evaluated
    in calls of a few hundred, and a sample of them must agree with the reference"""
    sigma, mu, _, _, _, _, r = setup(dict(case, z=[[0, 0]]))
    labels(ctx, r)
    n = case["n"]
    side = int(math.ceil(math.sqrt(n)))
    g = np.linspace(-case["span"], case["span"], side)
    X, Y = np.meshgrid(g, g, indexing="ij")
    x = (mu[0] + X.ravel() * math.sqrt(case["vx"]))[:n]
    y = (mu[1] + Y.ravel() * math.sqrt(case["vy"]))[:n]
    ctx.label("n=%d" % n)
    ctx.nontrivial(r != 0.0)
    big = gauss(ctx, x, y, mu, sigma)
    small = np.concatenate([gauss(ctx, x[i:i + 500], y[i:i + 500], mu, sigma) for i in range(0, n, 500)])
    ctx.require(not np.any(np.isnan(big)), "nan", "NaN in a large kernel call")
    bad = np.abs(big - small) > 1e-12
    ctx.require(not np.any(bad), "large_call_differs_from_small_calls",
                lambda: "%d points in one call vs calls of 500: %d values differ, first at index %d (%r vs %r), r=%r"
                % (n, int(bad.sum()), int(np.argmax(bad)), big[np.argmax(bad)], small[np.argmax(bad)], r))
    if r != 0.0:
        h = (x - mu[0]) / math.sqrt(case["vx"])
        k = (y - mu[1]) / math.sqrt(case["vy"])
        for i in range(0, n, max(1, n // 12)):
            ref, _ = bvn.ref(float(h[i]), float(k[i]), r)
            if ref is not None:
                ctx.require(abs(float(big[i]) - ref) <= 1e-7, "accuracy", lambda: "index %d of a %d-point call: %r vs reference %r" % (i, n, big[i], ref))


def VALID_DEFAULT(case):
    try:
        if "vx" in case:
            if not (case["vx"] > 0 and case["vy"] > 0 and -1 < case["r"] < 1):
                return False
        if "gx" in case and (sorted(case["gx"]) != case["gx"] or sorted(case["gy"]) != case["gy"] or len(case["gx"]) < 2 or len(case["gy"]) < 2):
            return False
        if "z" in case and (len(case["z"]) < 1 or any(len(q) != 2 for q in case["z"])):
            return False
        if "w" in case and not (case["w"] > 0 and case["h"] > 0):
            return False
        if "a" in case and not (case["a"] >= 40 and case["b"] >= 40):
            return False
    except Exception:
        return False
    return True


_floors = {"|r|<0.3": 0.08, "|r|<0.75": 0.08, "|r|<0.925": 0.08, "|r|>=0.925": 0.08, "near_threshold": 0.05}

CLAUSES = [
    Clause("accuracy", cov_case(far=False), check_accuracy, quick=6000, thorough=100000, floors=_floors,
           rule="1..6 evaluation points per covariance (|offset| <= 8 sd); |gaussian - reference| <= 1e-7, not NaN, in [0,1]; "
                "non-trivial = r != 0 and at least one point judged (reference conclusive)"),
    Clause("accuracy_far", cov_case(far=True), check_accuracy, quick=3000, thorough=50000,
           rule="as accuracy, with offsets out to +-10^4 sd in all sign combinations"),
    Clause("accuracy_mpmath", cov_case(npts=(1, 2), far=False), check_mp, quick=320, thorough=4000,
           rule="30-digit mpmath evaluation of Plackett's integral as an independent reference (also cross-checks the float64 reference)"),
    Clause("shape_laws", grid_case(), check_shape_laws, quick=3000, thorough=50000, floors=_floors,
           rule="CDF on an ascending 3..5 x 3..5 grid (steps 1e-6..10 sd, starts out to the far tails): values in [0,1], non-decreasing in "
                "each argument, every rectangle mass >= -1e-12; non-trivial = r != 0"),
    Clause("tails", tail_case(), check_tails, quick=3000, thorough=40000,
           rule="one or both arguments at +-40..10^4 sd: limits 0 / marginal Phi / 1 to 1e-12, never NaN; non-trivial = r != 0"),
    Clause("large_call", s_big_call(), check_big_call, quick=64, thorough=640, floors=None,
           rule="one call on 16384..90000 points (a square grid out to 3 / 6 / 12 sd) equals the same points in calls of 500, and 12 sampled "
                "values agree with the reference to 1e-7; non-trivial = r != 0"),
    Clause("product", cov_case(), check_product, quick=2000, thorough=20000,
           rule="zero covariance (matrix given as array and as nested list): gaussian, sbvn_cdf and bvn_cdf equal Phi*Phi of scipy to 1e-12; "
                "non-trivial = unequal variances"),
    Clause("norm_cdf", s_norm, check_norm_cdf, quick=1000, thorough=10000,
           rule="norm_cdf vs scipy.special.ndtr, relative 1e-13; non-trivial = >= 2 points"),
    Clause("uniform", uniform_case(), check_uniform, quick=2000, thorough=20000,
           rule="uniform kernel vs the closed-form CDF of the uniform law on the box centred at mu; widths/heights over four decades, "
                "points inside / on the border / outside; non-trivial = width != height and >= 2 points"),
]
