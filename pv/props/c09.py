"""C09 - landscape arithmetic is pointwise and leaves operands untouched (model-based histories)."""
import copy
import math

import numpy as np
from hypothesis import strategies as st

from persim import PersLandscapeApprox, PersLandscapeExact
from persim.landscapes.tools import average_approx, lc_approx, snap_pl

from ..core import Clause, Violation, close
from ..oracles import landscape as L
from ..strategies import dict_of, finite, valid_family
from . import _land as LD

FUZZ = ["sum_two"]
THOROUGH_SCALE = 1     # already minutes per run (exact oracles on every step / large graphs)
RULE = ("A history = 1..3 initial landscapes (from generated critical pairs, or from diagrams) + a generated list of operations (+, -, unary -, "
        "c*, *c, /c, /0, mismatched degree/grid, re-use of one operand twice, results fed back into the pool) interpreted against the real objects "
        "AND against an independent pointwise model; after EVERY step every pool entry is compared with its model and with a deep snapshot taken "
        "at its creation. The history is one shrinkable JSON value and the replay file is the history itself.")
ASSUMPTIONS = [
    "exact landscapes: equality with the model is decided on the union of all breakpoints in the pool + midpoints + outside points (both sides are "
    "piecewise linear there); tolerance 1e-9 * (largest total variation, ordinate or |abscissa| in the pool)",
    "a diagram-built exact landscape for which the C03 hook reports that the repeated-bar shortcut fired is modelled by the functions its own critical pairs represent (not by the definition), so C03's open finding is not re-reported here",
    "re-sampling: only interpolation inside the source grid is asserted, and zero outside for sources that vanish at both ends; extrapolation of a "
    "source whose end samples are non-zero is unspecified",
    "grid landscapes carrying the documented 'empty' sentinel are not used as operands",
]

SCAL = st.one_of(st.sampled_from([2, -1, 3, 0.5, -2.5, 1, 0, 0.0, -1.0]), finite(1e-3, 10), finite(-10, -1e-3))
SCAL_KINDS = st.sampled_from(["as_is", "as_is", "as_is", "np.float64", "np.int64", "int"])


def scalar_of(c, kind):
    """the same real number as another scalar type (all real scalars are in the domain); the exact value is kept or the kind is ignored"""
    if kind == "np.float64":
        return np.float64(c)
    if kind == "np.int64" and float(c).is_integer():
        return np.int64(int(c))
    if kind == "int" and float(c).is_integer():
        return int(c)
    # np.float32 scalars are not generated: arithmetic with them is carried out in single precision by NumPy's promotion rules - a
    # different computation, not a different representation (same reading as for float32 diagrams, DESIGN 9.2)
    return c


# =========================================================================================
# exact landscapes

def model_eval(m, t):
    k = m[0]
    if k == "pl":
        return [L.pl_eval(d, t) for d in m[1]]
    if k == "dgm":
        return L.values_at(m[1], t)
    if k == "add":
        a, b = model_eval(m[1], t), model_eval(m[2], t)
        n = max(len(a), len(b))
        a = a + [0.0] * (n - len(a))
        b = b + [0.0] * (n - len(b))
        return [x + y for x, y in zip(a, b)]
    if k == "scale":
        return [m[1] * x for x in model_eval(m[2], t)]
    raise ValueError(k)


def model_breaks(m):
    k = m[0]
    if k == "pl":
        return {float(q[0]) for d in m[1] for q in d}
    if k == "dgm":
        return set(L.breakpoint_candidates(m[1]))
    if k == "add":
        return model_breaks(m[1]) | model_breaks(m[2])
    return model_breaks(m[2])


def cps_of(obj):
    return copy.deepcopy([[[float(q[0]), float(q[1])] for q in d] for d in obj.critical_pairs])


def tv(cps):
    s = 0.0
    for d in cps:
        s = max(s, sum(abs(b[1] - a[1]) for a, b in zip(d, d[1:])), max([abs(q[1]) for q in d] + [0.0]))
    return s


class ExactPool:
    def __init__(self, ctx):
        self.ctx = ctx
        self.items = []   # dicts: obj, model, snap, origin

    def add(self, obj, model, origin):
        self.items.append({"obj": obj, "model": model, "snap": (cps_of(obj), obj.hom_deg), "origin": origin})

    def add_lazy(self, obj, model, origin, expected_cps):
        # not computed yet: the snapshot is what an eagerly built twin holds; the entry is checked from its first use on
        self.items.append({"obj": obj, "model": model, "snap": (expected_cps, obj.hom_deg), "origin": origin, "lazy": True})

    def check(self, step):
        ctx = self.ctx
        breaks = set()
        scale = 1e-300
        for it in self.items:
            if it.get("lazy") and not it["obj"].critical_pairs:
                continue
            breaks |= model_breaks(it["model"])
            cur = cps_of(it["obj"])
            breaks |= {q[0] for d in cur for q in d}
            # ordinates are differences of abscissae: their rounding error is relative to the coordinate magnitude
            scale = max(scale, tv(cur), max([abs(q[0]) for d in cur for q in d] + [0.0]))
        T = L.eval_points(breaks)
        for idx, it in enumerate(self.items):
            if it.get("lazy") and not it["obj"].critical_pairs:
                continue        # still not computed (never used so far)
            cur = cps_of(it["obj"])
            for d in cur:
                ok = all(math.isfinite(q[0]) and math.isfinite(q[1]) for q in d)
                ctx.require(ok, "non_finite_result", lambda: "after %s: entry %d (%s) has non-finite critical pairs %s" % (step, idx, it["origin"], d))
            ctx.require(cur == it["snap"][0] and it["obj"].hom_deg == it["snap"][1], "operand_modified",
                        lambda: "after %s: pool entry %d (%s) changed: %s -> %s" % (step, idx, it["origin"], it["snap"][0], cur))
            for t in T:
                want = model_eval(it["model"], t)
                n = max(len(want), len(cur))
                for k in range(n):
                    got = L.pl_eval(cur[k], t) if k < len(cur) else 0.0
                    w = want[k] if k < len(want) else 0.0
                    if not close(got, w, scale):
                        raise Violation("not_pointwise", "after %s: entry %d (%s), depth %d at t=%r: landscape %r, pointwise model %r"
                                        % (step, idx, it["origin"], k + 1, t, got, w))


@st.composite
def exact_leaf(draw):
    if draw(st.integers(0, 2)) == 0:
        # every other diagram leaf is likely to contain exactly repeated bars: the sweep then emits depths that SHARE their list objects,
        # so an operation that edits pairs in place (or deep-copies aliased structure) shows up as a non-pointwise result
        fam = draw(LD.bar_family(1, 5, dup_bias=True) if draw(st.booleans()) else LD.bar_family(1, 5))
        return {"kind": "dgm", "bars": fam["dgms"][0], "mode": fam["mode"], "lazy": draw(st.booleans())}
    return {"kind": "pl", "f": draw(LD.pl_function(1, 3))}


@st.composite
def exact_op(draw):
    op = draw(st.sampled_from(["add", "add", "sub", "sub", "neg", "mul", "rmul", "div", "div0", "bad_deg", "self_add", "self_sub", "leaf"]))
    d = {"op": op, "i": draw(st.integers(0, 30)), "j": draw(st.integers(0, 30))}
    if op in ("mul", "rmul", "div"):
        d["c"] = draw(SCAL)
        d["ckind"] = draw(SCAL_KINDS)
    if op == "leaf":
        d["leaf"] = draw(exact_leaf())
    return d


@st.composite
def exact_history(draw, max_ops=12):
    return {"leaves": [draw(exact_leaf()) for _ in range(draw(st.integers(1, 3)))],
            "ops": [draw(exact_op()) for _ in range(draw(st.integers(1, max_ops)))]}


def make_leaf(ctx, pool, leaf):
    if leaf["kind"] == "pl":
        obj = ctx.call(PersLandscapeExact, critical_pairs=copy.deepcopy(leaf["f"]), hom_deg=0)
        pool.add(obj, ("pl", copy.deepcopy(leaf["f"])), "critical pairs")
        return True
    probe = LD.exact_from_bars(ctx, leaf["bars"])
    if LD.shortcut_fired(probe):
        # the repeated-bar shortcut fired (C03's open finding): the object may not be the landscape of its diagram, but it still represents
        # definite piecewise-linear functions - and its depths SHARE list objects. It takes part as the function it represents.
        ctx.label("leaf_with_shared_depth_lists")
        pool.add(probe, ("pl", [[[float(q[0]), float(q[1])] for q in d] for d in probe.critical_pairs]), "diagram %s (repeated-bar shortcut fired)" % leaf["bars"])
        return True
    if leaf.get("lazy"):
        # built with compute=False: the landscape is only computed when it is first used - here, as an operand
        ctx.label("lazy_leaf")
        obj = ctx.call(PersLandscapeExact, dgms=[np.array(leaf["bars"], dtype=float)], hom_deg=0, compute=False)
        pool.add_lazy(obj, ("dgm", copy.deepcopy(leaf["bars"])), "lazily computed diagram %s" % leaf["bars"], cps_of(probe))
    else:
        pool.add(probe, ("dgm", copy.deepcopy(leaf["bars"])), "diagram %s" % leaf["bars"])
    return True


def run_exact_history(case, ctx):
    pool = ExactPool(ctx)
    for leaf in case["leaves"]:
        make_leaf(ctx, pool, leaf)
    if not pool.items:
        ctx.skip("all initial landscapes affected by the C03 finding")
    pool.check("construction")
    feats = set()
    n_ops = 0
    used = {}
    for n, op in enumerate(case["ops"]):
        k = op["op"]
        step = "op %d (%s)" % (n, k)
        a = pool.items[op["i"] % len(pool.items)]
        b = pool.items[op["j"] % len(pool.items)]
        used[id(a["obj"])] = used.get(id(a["obj"]), 0) + 1
        if k in ("add", "sub", "self_add", "self_sub"):
            if k.startswith("self"):
                b = a
            sign = 1.0 if k.endswith("add") else -1.0
            used[id(b["obj"])] = used.get(id(b["obj"]), 0) + 1
            res = ctx.call((lambda: a["obj"] + b["obj"]) if sign > 0 else (lambda: a["obj"] - b["obj"]))
            model = ("add", a["model"], b["model"] if sign > 0 else ("scale", -1.0, b["model"]))
            if len(a["obj"].critical_pairs) != len(b["obj"].critical_pairs):
                feats.add("different_depth_counts")
            xa = {q[0] for d in a["obj"].critical_pairs for q in d}
            xb = {q[0] for d in b["obj"].critical_pairs for q in d}
            if xa & xb:
                feats.add("coincident_abscissae")
            pool.add(res, model, step)
        elif k == "neg":
            pool.add(ctx.call(lambda: -a["obj"]), ("scale", -1.0, a["model"]), step)
        elif k in ("mul", "rmul"):
            c = scalar_of(op["c"], op.get("ckind", "as_is"))
            ctx.label("scalar:" + type(c).__name__)
            res = ctx.call((lambda: a["obj"] * c) if k == "mul" else (lambda: c * a["obj"]))
            pool.add(res, ("scale", float(c), a["model"]), step)
        elif k == "div":
            c = scalar_of(op["c"], op.get("ckind", "as_is"))
            if c == 0:
                ok = ctx.raises(ValueError, lambda: a["obj"] / c)
                ctx.require(ok, "division_by_zero_accepted", "landscape / 0 returned a value")
                feats.add("div0")
                continue
            pool.add(ctx.call(lambda: a["obj"] / c), ("scale", 1.0 / float(c), a["model"]), step)
        elif k == "div0":
            ok = ctx.raises(ValueError, lambda: a["obj"] / 0.0)
            ctx.require(ok, "division_by_zero_accepted", "landscape / 0.0 returned a value")
            feats.add("div0")
            continue
        elif k == "bad_deg":
            other = ctx.call(PersLandscapeExact, critical_pairs=[[[0.0, 0.0], [1.0, 1.0], [2.0, 0.0]]], hom_deg=1)
            ok = ctx.raises(ValueError, lambda: a["obj"] + other)
            ctx.require(ok, "mismatched_degree_accepted", "sum of landscapes of different homological degree returned a value")
            ok = ctx.raises(ValueError, lambda: other - a["obj"])
            ctx.require(ok, "mismatched_degree_accepted", "difference of landscapes of different homological degree returned a value")
            feats.add("bad_deg")
            continue
        elif k == "leaf":
            if not make_leaf(ctx, pool, op["leaf"]):
                continue
        else:
            ctx.skip("unknown op (shrinker)")
        n_ops += 1
        pool.check(step)
        last = pool.items[-1]["obj"].critical_pairs
        if any((p[1] < 0 < q[1]) or (q[1] < 0 < p[1]) or (p[1] * q[1] < 0) for d in last for p, q in zip(d, d[1:])):
            feats.add("sign_change")
        if len(pool.items) > 14:
            break
    if any(v >= 2 for v in used.values()):
        feats.add("operand_reused")
    ctx.label("ops=%d" % min(n_ops, 12), *sorted(feats))
    ctx.nontrivial(n_ops >= 4 and {"different_depth_counts", "coincident_abscissae", "sign_change", "operand_reused"} <= feats)


# stateless pair clause (also the coverage-guided target)
s_sum_two = dict_of({"a": LD.pl_function(1, 3, max_pts=8), "b": LD.pl_function(1, 3, max_pts=8),
                                   "sign": st.sampled_from([1, -1])})


def check_sum_two(case, ctx):
    sub = case["sign"] < 0
    run_exact_history({"leaves": [{"kind": "pl", "f": case["a"]}, {"kind": "pl", "f": case["b"]}],
                       "ops": [{"op": "sub" if sub else "add", "i": 0, "j": 1}]}, ctx)
    xa = {q[0] for d in case["a"] for q in d}
    xb = {q[0] for d in case["b"] for q in d}
    ctx.nontrivial(bool(xa & xb) and len(case["a"]) != len(case["b"]))


# =========================================================================================
# grid landscapes

def is_sentinel(pla):
    v = pla.values
    return isinstance(v, np.ndarray) and v.dtype.kind in "US"


def pad_rows(a, n):
    a = np.asarray(a, dtype=float)
    if a.shape[0] < n:
        a = np.vstack([a, np.zeros((n - a.shape[0], a.shape[1]))])
    return a


class GridPool:
    def __init__(self, ctx):
        self.ctx = ctx
        self.items = []

    def add(self, obj, vals, origin, lazy=False):
        vals = np.array(vals, dtype=float)
        # a lazily computed landscape (compute=False) holds no values yet: its snapshot is what an eagerly built twin holds, and the entry
        # is checked from its first use on
        snap = ((vals.copy() if lazy else np.array(obj.values, dtype=float).copy()), obj.start, obj.stop, obj.num_steps, obj.hom_deg)
        self.items.append({"obj": obj, "model": vals, "snap": snap, "origin": origin, "lazy": lazy})

    def check(self, step):
        ctx = self.ctx
        for idx, it in enumerate(self.items):
            o = it["obj"]
            if it.get("lazy") and np.asarray(o.values).size == 0:
                continue            # still not computed (never used so far)
            cur = np.asarray(o.values, dtype=float)
            s = it["snap"]
            same = cur.shape == s[0].shape and np.array_equal(cur, s[0]) and (o.start, o.stop, o.num_steps, o.hom_deg) == s[1:]
            ctx.require(same, "operand_modified", lambda: "after %s: grid entry %d (%s) changed" % (step, idx, it["origin"]))
            m = it["model"]
            n = max(m.shape[0], cur.shape[0])
            scale = max(1e-300, float(np.max(np.abs(m))) if m.size else 0.0)
            ctx.require(cur.shape[1] == m.shape[1], "wrong_number_of_samples", lambda: "after %s: entry %d has %d samples, model %d" % (step, idx, cur.shape[1], m.shape[1]))
            diff = np.abs(pad_rows(cur, n) - pad_rows(m, n))
            ctx.require(np.all(np.isfinite(cur)), "non_finite_result", lambda: "after %s: entry %d (%s) has non-finite samples" % (step, idx, it["origin"]))
            ctx.require(np.all(diff <= 1e-9 * scale), "not_pointwise",
                        lambda: "after %s: entry %d (%s): max |values - pointwise model| = %r (scale %r)" % (step, idx, it["origin"], diff.max(), scale))


GRIDS = [[0.0, 10.0, 11], [0.0, 10.0, 21], [-1.0, 4.0, 6], [0.0, 1.0, 5], [2.0, 12.0, 11], [0.5, 7.25, 10]]


@st.composite
def grid_leaf(draw):
    g = draw(st.sampled_from([0, 0, 0, 0, 1, 2, 3, 4, 5]))
    if draw(st.integers(0, 2)) == 0:
        fam = draw(LD.bar_family(1, 5, scales=False, allow_neg=False, lattice_max=8, modes=("lattice", "float")))
        return {"kind": "dgm", "bars": fam["dgms"][0], "grid": g, "lazy": draw(st.booleans())}
    n = GRIDS[g][2]
    k = draw(st.integers(1, 3))
    yv = st.one_of(st.integers(-3, 3).map(float), finite(-5, 5))
    zero_ends = draw(st.booleans())
    rows = []
    for _ in range(k):
        r = [draw(yv) for _ in range(n)]
        if zero_ends:
            r[0] = r[-1] = 0.0
        rows.append(r)
    if draw(st.integers(0, 3)) == 0:
        # integer-typed sample arrays (the form the repository's own tests and docstrings use)
        rows = [[float(int(v)) for v in r] for r in rows]
        return {"kind": "vals", "vals": rows, "grid": g, "int_dtype": True}
    return {"kind": "vals", "vals": rows, "grid": g}


@st.composite
def grid_op(draw):
    op = draw(st.sampled_from(["add", "add", "sub", "neg", "mul", "rmul", "div", "div0", "bad_grid", "bad_deg", "self_sub", "leaf",
                               "snap", "snap", "lc", "avg"]))
    d = {"op": op, "i": draw(st.integers(0, 30)), "j": draw(st.integers(0, 30))}
    if op in ("mul", "rmul", "div"):
        d["c"] = draw(SCAL)
        d["ckind"] = draw(SCAL_KINDS)
    if op == "leaf":
        d["leaf"] = draw(grid_leaf())
    if op in ("snap", "lc", "avg"):
        if op == "lc" and draw(st.integers(0, 5)) == 0:
            d["members"] = draw(st.lists(st.integers(0, 30), min_size=33, max_size=70))      # long lists (pool entries repeated)
        else:
            d["members"] = draw(st.lists(st.integers(0, 30), min_size=1, max_size=4))
        d["target"] = draw(st.sampled_from([None, None, [-2.0, 13.0, 16], [0.0, 10.0, 41], [1.0, 5.0, 9], [0.0, 12.0, 7]]))
        cs = st.sampled_from([1.0, -1.0, 2.0, 0.5, 0.0, -3.0])
        d["coeffs"] = [draw(cs) for _ in d["members"]] if len(d["members"]) <= 4 else draw(st.lists(cs, min_size=len(d["members"]), max_size=len(d["members"])))
    return d


@st.composite
def grid_history(draw, max_ops=10):
    return {"leaves": [draw(grid_leaf()) for _ in range(draw(st.integers(1, 3)))],
            "ops": [draw(grid_op()) for _ in range(draw(st.integers(1, max_ops)))]}


def make_grid_leaf(ctx, pool, leaf):
    start, stop, n = GRIDS[leaf["grid"] % len(GRIDS)]
    if leaf["kind"] == "vals":
        vals = np.array(leaf["vals"], dtype=float)
        if vals.ndim != 2 or vals.shape[1] != n or vals.shape[0] < 1:
            ctx.skip("malformed values (shrinker)")
        given = vals.astype(np.int64) if leaf.get("int_dtype") else vals.copy()
        if leaf.get("int_dtype"):
            ctx.label("int_valued_leaf")
        obj = ctx.call(PersLandscapeApprox, start=start, stop=stop, num_steps=n, values=given, hom_deg=0)
        pool.add(obj, vals, "%s values on grid %s" % ("integer-typed" if leaf.get("int_dtype") else "float", GRIDS[leaf["grid"] % len(GRIDS)],))
        return True
    obj = ctx.call(PersLandscapeApprox, start=start, stop=stop, num_steps=n, dgms=[np.array(leaf["bars"], dtype=float)], hom_deg=0)
    if is_sentinel(obj):
        ctx.label("leaf_excluded_empty_sentinel")
        return False
    if leaf.get("lazy"):
        # built with compute=False: the landscape is only computed when it is first used - here, as an operand of arithmetic / re-sampling
        ctx.label("lazy_grid_leaf")
        lazy = ctx.call(PersLandscapeApprox, start=start, stop=stop, num_steps=n, dgms=[np.array(leaf["bars"], dtype=float)], hom_deg=0, compute=False)
        pool.add(lazy, np.array(obj.values, dtype=float), "lazily computed diagram %s" % leaf["bars"], lazy=True)
        return True
    pool.add(obj, np.array(obj.values, dtype=float), "diagram %s" % leaf["bars"])
    return True


def resample_model(it, start, stop, n):
    """manual linear interpolation of every depth onto the target grid; returns (values, asserted mask)"""
    o = it["obj"]
    src = it["model"]
    sx = [o.start + (o.stop - o.start) * i / (o.num_steps - 1) for i in range(o.num_steps)]
    sx[-1] = o.stop
    tx = [start + (stop - start) * i / (n - 1) for i in range(n)]
    tx[-1] = stop
    out = np.zeros((src.shape[0], n))
    mask = np.zeros((src.shape[0], n), dtype=bool)
    for k in range(src.shape[0]):
        ends_zero = src[k][0] == 0.0 and src[k][-1] == 0.0
        for i, t in enumerate(tx):
            if t < sx[0] or t > sx[-1]:
                if ends_zero:
                    mask[k][i] = True
                continue
            j = 0
            while j < len(sx) - 2 and sx[j + 1] < t:
                j += 1
            x0, x1 = sx[j], sx[j + 1]
            w = (t - x0) / (x1 - x0)
            out[k][i] = src[k][j] + (src[k][j + 1] - src[k][j]) * w
            mask[k][i] = True
    return out, mask


def run_grid_history(case, ctx):
    pool = GridPool(ctx)
    for leaf in case["leaves"]:
        make_grid_leaf(ctx, pool, leaf)
    if not pool.items:
        ctx.skip("no usable initial grid landscape")
    pool.check("construction")
    feats = set()
    n_ops = 0
    for n, op in enumerate(case["ops"]):
        k = op["op"]
        step = "op %d (%s)" % (n, k)
        a = pool.items[op["i"] % len(pool.items)]
        b = pool.items[op["j"] % len(pool.items)]
        ga = (a["obj"].start, a["obj"].stop, a["obj"].num_steps)
        if k in ("add", "sub", "self_sub"):
            if k == "self_sub":
                b = a
            gb = (b["obj"].start, b["obj"].stop, b["obj"].num_steps)
            fn = (lambda: a["obj"] + b["obj"]) if k == "add" else (lambda: a["obj"] - b["obj"])
            if ga != gb:
                ok = ctx.raises(ValueError, fn)
                ctx.require(ok, "mismatched_grid_accepted", lambda: "operation on grids %s and %s returned a value" % (ga, gb))
                feats.add("mismatched_grid")
                continue
            res = ctx.call(fn)
            nrow = max(a["model"].shape[0], b["model"].shape[0])
            if a["model"].shape[0] != b["model"].shape[0]:
                feats.add("different_depth_counts")
            m = pad_rows(a["model"], nrow) + (1 if k == "add" else -1) * pad_rows(b["model"], nrow)
            pool.add(res, m, step)
        elif k == "neg":
            pool.add(ctx.call(lambda: -a["obj"]), -a["model"], step)
        elif k in ("mul", "rmul"):
            c = scalar_of(op["c"], op.get("ckind", "as_is"))
            ctx.label("scalar:" + type(c).__name__)
            pool.add(ctx.call((lambda: a["obj"] * c) if k == "mul" else (lambda: c * a["obj"])), float(c) * a["model"], step)
        elif k in ("div", "div0"):
            c = scalar_of(op.get("c", 0.0), op.get("ckind", "as_is")) if k == "div" else 0.0
            if c == 0:
                ok = ctx.raises(ValueError, lambda: a["obj"] / c)
                ctx.require(ok, "division_by_zero_accepted", "grid landscape / 0 returned a value")
                feats.add("div0")
                continue
            pool.add(ctx.call(lambda: a["obj"] / c), a["model"] * (1.0 / float(c)), step)
        elif k == "bad_grid":
            o = a["obj"]
            for kw in ({"start": o.start - 1.0}, {"stop": o.stop + 1.0}, {"num_steps": o.num_steps + 1}):
                args = {"start": o.start, "stop": o.stop, "num_steps": o.num_steps}
                args.update(kw)
                other = ctx.call(PersLandscapeApprox, values=np.zeros((1, args["num_steps"])) + 1.0, hom_deg=0, **args)
                ok = ctx.raises(ValueError, lambda: o + other)
                ctx.require(ok, "mismatched_grid_accepted", lambda: "sum with a landscape differing in %s returned a value" % list(kw))
            feats.add("mismatched_grid")
            continue
        elif k == "bad_deg":
            o = a["obj"]
            other = ctx.call(PersLandscapeApprox, values=np.ones((1, o.num_steps)), hom_deg=1, start=o.start, stop=o.stop, num_steps=o.num_steps)
            ok = ctx.raises(ValueError, lambda: o + other)
            ctx.require(ok, "mismatched_degree_accepted", "sum of grid landscapes of different homological degree returned a value")
            feats.add("bad_deg")
            continue
        elif k == "leaf":
            if not make_grid_leaf(ctx, pool, op["leaf"]):
                continue
        elif k in ("snap", "lc", "avg"):
            members = [pool.items[i % len(pool.items)] for i in op["members"]]
            objs = [m["obj"] for m in members]
            if op["target"] is None:
                start = min(o.start for o in objs)
                stop = max(o.stop for o in objs)
                nn = max(o.num_steps for o in objs)
                kw = {}
            else:
                start, stop, nn = op["target"]
                kw = {"start": start, "stop": stop, "num_steps": nn}
            models = [resample_model(m, start, stop, nn) for m in members]
            feats.add("resample")
            if len(members) > 32:
                feats.add("many_members")
            if k == "snap":
                out = ctx.call(snap_pl, objs, **kw)
                ctx.require(isinstance(out, list) and len(out) == len(objs), "snap_form", lambda: "snap_pl returned %r" % (out,))
                for o, (mv, mask), src in zip(out, models, members):
                    ctx.require((o.start, o.stop, o.num_steps, o.hom_deg) == (start, stop, nn, src["obj"].hom_deg), "snap_grid",
                                lambda: "snapped grid (%r,%r,%r), expected (%r,%r,%r)" % (o.start, o.stop, o.num_steps, start, stop, nn))
                    v = np.asarray(o.values, dtype=float)
                    ctx.require(v.shape == mv.shape, "snap_shape", lambda: "snapped values shape %s, expected %s" % (v.shape, mv.shape))
                    sc = max(1e-300, float(np.max(np.abs(src["model"]))))
                    bad = mask & (np.abs(v - mv) > 1e-9 * sc)
                    ctx.require(not np.any(bad), "not_linear_interpolation",
                                lambda: "snap_pl value %r vs linear interpolation %r at %s" % (v[bad][0], mv[bad][0], np.argwhere(bad)[0].tolist()))
                    if np.all(mask):
                        pool.add(o, v, step)
            else:
                coeffs = op["coeffs"][:len(objs)] if k == "lc" else [1.0 / len(objs)] * len(objs)
                if len(coeffs) != len(objs):
                    ctx.skip("malformed coefficients (shrinker)")
                res = ctx.call(lc_approx, objs, coeffs, **kw) if k == "lc" else ctx.call(average_approx, objs, **kw)
                nrow = max(mv.shape[0] for mv, _ in models)
                want = sum(c * pad_rows(mv, nrow) for c, (mv, _) in zip(coeffs, models))
                mask = np.all([pad_rows(mk.astype(float), nrow) > 0 if mk.shape[0] == nrow else
                               np.vstack([mk, np.ones((nrow - mk.shape[0], mk.shape[1]), dtype=bool)]) for _, mk in models], axis=0)
                ctx.require(isinstance(res, PersLandscapeApprox), "lc_form", lambda: "linear combination returned %r" % type(res).__name__)
                v = np.asarray(res.values, dtype=float)
                ctx.require((res.start, res.stop, res.num_steps) == (start, stop, nn) and v.shape[1] == nn, "lc_grid",
                            lambda: "combination grid (%r,%r,%r), expected (%r,%r,%r)" % (res.start, res.stop, res.num_steps, start, stop, nn))
                vv = pad_rows(v, max(nrow, v.shape[0]))
                ww = pad_rows(want, max(nrow, v.shape[0]))
                mm = np.vstack([mask, np.ones((vv.shape[0] - mask.shape[0], nn), dtype=bool)]) if vv.shape[0] > mask.shape[0] else mask
                sc = max(1e-300, max(float(np.max(np.abs(m["model"]))) for m in members)) * max(1.0, max(abs(c) for c in coeffs)) * len(objs)
                bad = mm & (np.abs(vv - ww) > 1e-9 * sc)
                ctx.require(not np.any(bad), "not_the_combination_of_resampled_values",
                            lambda: "%s: value %r vs combination of re-sampled values %r at %s" % (k, vv[bad][0], ww[bad][0], np.argwhere(bad)[0].tolist()))
                if np.all(mm):
                    pool.add(res, v, step)
        else:
            ctx.skip("unknown op (shrinker)")
        n_ops += 1
        pool.check(step)
        if len(pool.items) > 14:
            break
    ctx.label("ops=%d" % min(n_ops, 10), *sorted(feats))
    ctx.nontrivial(n_ops >= 3 and ("different_depth_counts" in feats or "resample" in feats))


def VALID_DEFAULT(case):
    try:
        if "a" in case:
            return LD.valid_pl(case["a"]) and LD.valid_pl(case["b"])
        if not case["leaves"]:
            return False
        leaves = list(case["leaves"]) + [op["leaf"] for op in case["ops"] if op["op"] == "leaf"]
        for lf in leaves:
            if lf["kind"] == "pl" and not LD.valid_pl(lf["f"]):
                return False
            if lf["kind"] == "dgm" and (not lf["bars"] or any(len(b) != 2 or not b[1] > b[0] for b in lf["bars"])):
                return False
            if lf["kind"] == "vals":
                n = GRIDS[lf["grid"] % len(GRIDS)][2]
                if not lf["vals"] or any(len(r) != n for r in lf["vals"]):
                    return False
        for op in case["ops"]:
            if op["op"] in ("snap", "lc", "avg") and (not op["members"] or len(op["coeffs"]) != len(op["members"])):
                return False
    except Exception:
        return False
    return True


CLAUSES = [
    Clause("exact_history", exact_history(12), run_exact_history, quick=3000, thorough=40000,
           rule="1..3 initial exact landscapes + 1..12 operations; non-trivial = >= 4 executed operations including a binary operation between "
                "operands with different depth counts, one with coincident abscissae, one producing a sign change, and an operand used at least twice"),
    Clause("exact_long", exact_history(30), run_exact_history, quick=500, thorough=8000,
           rule="as exact_history with up to 30 operations (pool capped at 15 entries)"),
    Clause("sum_two", s_sum_two, check_sum_two, quick=4000, thorough=60000, fuzz=True,
           rule="stateless A +- B of two generated PL functions (1..3 depths, 2..8 breakpoints each); non-trivial = shared abscissae and different depth counts"),
    Clause("grid_history", grid_history(10), run_grid_history, quick=3000, thorough=40000,
           rule="1..3 initial grid landscapes on six shared grids (from values arrays, from diagrams) + 1..10 operations incl. snap_pl / lc_approx / "
                "average_approx onto the tightest or a generated common grid; non-trivial = >= 3 executed operations with different depth counts or a re-sampling"),
]
