"""C14 - heat-kernel distance is a real pseudo-metric, stable w.r.t. Wasserstein."""
import math

import numpy as np
from hypothesis import strategies as st

from persim import heat, wasserstein

from ..core import Clause
from ..oracles import kernels as K
from ..oracles import matching as M
from ..strategies import dict_of, diagram_family, permutation_of, valid_family

FUZZ = ["value"]
RULE = ("Diagrams of 0..10 points (the implementation is an O(mn) Python loop) from a shared lattice / ulp-perturbed / float "
        "family; sigma = (family scale)^2 * 10^j, j in -3..3, so that the kernel width is commensurate with the data at every scale.")
ASSUMPTIONS = [
    "squares are compared: |heat^2 - ref^2| <= 1e-12*(k(F,F)+k(G,G)) + 1e-14*(m+n)^2/(8 pi sigma); the second term is the absolute "
    "rounding floor of summing (m+n)^2 exponentials of size <= 1/(8 pi sigma); for distances the slack is the square root of that",
    "the Wasserstein bound uses the Euclidean ground metric with perpendicular diagonal distance (persim's convention), for which "
    "the single-point feature map is 1/(4 sigma sqrt(pi))-Lipschitz",
]

SIG = st.sampled_from([1.0, 1.0, 0.4, 10.0, 0.1, 100.0, 0.01, 1e3, 1e-3])


def fam_sigma(fam, rel):
    return rel * fam["scale"] ** 2 if fam["mode"] != "float" else rel * 100.0


def arr(d):
    return np.array(d, dtype=float).reshape(-1, 2)


def sq_tol(kff, kgg, n, sigma):
    return 1e-12 * (abs(kff) + abs(kgg)) + 1e-14 * n * n / (8 * math.pi * sigma)


def hd(ctx, F, G, sigma):
    """persim.heat, required to be a finite non-negative real number."""
    sig = sigma
    if float(sigma).is_integer() and 1 <= sigma <= 30000 and (len(F) + len(G)) % 2 == 1:
        # the same bandwidth held as the narrowest NumPy integer scalar (8 * sigma does not fit int8 from sigma = 16 on)
        sig = next(t for t in (np.int8, np.uint8, np.int16) if sigma <= np.iinfo(t).max)(int(sigma))
        ctx.label("sigma_as:" + type(sig).__name__)
    out = ctx.call(heat, arr(F), arr(G), sigma=sig)
    ok = np.ndim(out) == 0 and not np.iscomplexobj(out)
    ctx.require(ok, "not_a_real_scalar", lambda: "heat returned %r" % (out,))
    v = float(out)
    ctx.require(not math.isnan(v), "nan", lambda: "heat(F, G, sigma=%r) is NaN; F=%s G=%s" % (sigma, F, G))
    ctx.require(math.isfinite(v) and v >= 0, "not_finite_nonnegative", lambda: "heat = %r" % v)
    return v


def offdiag(d):
    return sum(1 for b, dd in d if dd > b)


def labels(ctx, fam, rel):
    ctx.label("mode:" + fam["mode"], "sigma_rel:%g" % rel)


# ------------------------------------------------------------------------------------

s_value = dict_of({"fam": diagram_family(count=2, min_size=0, max_size=10), "rel": SIG})


def check_value(case, ctx):
    fam = case["fam"]
    F, G = fam["dgms"]
    sigma = fam_sigma(fam, case["rel"])
    labels(ctx, fam, case["rel"])
    ctx.nontrivial(offdiag(F) >= 2 and offdiag(G) >= 2)
    v = hd(ctx, F, G, sigma)
    ref2, kff, kgg = K.heat_sq(F, G, sigma)
    tol = sq_tol(kff, kgg, len(F) + len(G), sigma)
    ctx.require(abs(v * v - ref2) <= tol, "value",
                lambda: "heat^2=%r, k(F,F)+k(G,G)-2k(F,G)=%r (tol %r) sigma=%r F=%s G=%s" % (v * v, ref2, tol, sigma, F, G))
    if ref2 >= 1e-8 * (kff + kgg) and ref2 > 1e7 * tol:
        # (only where the squared comparison above already pins the value to better than 1e-7 relative: the kernel sums cancel
        # twice - inside each term for sigma >> coordinates, and between the three kernels - so a looser guard raised a false
        # alarm of 1e-6 relative on sigma = 1000, coordinates 0.14)
        ctx.label("well_conditioned")
        ctx.require(abs(v - math.sqrt(ref2)) <= 1e-6 * math.sqrt(ref2), "value_rel",
                    lambda: "heat=%r, reference=%r" % (v, math.sqrt(ref2)))


@st.composite
def s_reorder(draw):
    fam = draw(diagram_family(count=1, min_size=2, max_size=10, dup_bias=True))
    n = len(fam["dgms"][0])
    return {"fam": fam, "perm": draw(permutation_of(n)), "rel": draw(SIG)}


def check_reorder(case, ctx):
    fam = case["fam"]
    F = fam["dgms"][0]
    perm = case["perm"]
    if sorted(perm) != list(range(len(F))):
        ctx.skip("malformed permutation (shrinker)")
    G = [F[i] for i in perm]
    sigma = fam_sigma(fam, case["rel"])
    labels(ctx, fam, case["rel"])
    ctx.nontrivial(offdiag(F) >= 2 and perm != sorted(perm))
    v = hd(ctx, F, G, sigma)
    kff = K.heat_kernel(F, F, sigma)
    tol = sq_tol(kff, kff, 2 * len(F), sigma)
    ctx.require(v * v <= tol, "reorder_nonzero", lambda: "heat(F, permuted F)^2 = %r > %r" % (v * v, tol))


@st.composite
def s_near(draw):
    fam = draw(diagram_family(count=1, min_size=1, max_size=10, allow_diag=False))
    n = len(fam["dgms"][0])
    return {"fam": fam, "k": draw(st.integers(3, 15)),
            "noise": [[draw(st.integers(-4, 4)), draw(st.integers(-4, 4))] for _ in range(n)],
            "perm": draw(permutation_of(n)), "rel": draw(SIG)}


def check_near(case, ctx):
    fam = case["fam"]
    F = fam["dgms"][0]
    if len(case["noise"]) != len(F) or sorted(case["perm"]) != list(range(len(F))):
        ctx.skip("malformed case (shrinker)")
    s = max(abs(x) for p in F for x in p) or 1.0
    eps = s * 10.0 ** (-case["k"])
    G0 = [[b + nb * eps, d + nd * eps] for (b, d), (nb, nd) in zip(F, case["noise"])]
    G0 = [[b, max(b, d)] for b, d in G0]
    G = [G0[i] for i in case["perm"]]
    sigma = fam_sigma(fam, case["rel"])
    labels(ctx, fam, case["rel"])
    ctx.label("k=%d" % case["k"])
    v = hd(ctx, F, G, sigma)
    ref2, kff, kgg = K.heat_sq(F, G, sigma)
    ctx.nontrivial(len(F) >= 2 and abs(ref2) < 1e-10 * (kff + kgg))
    tol = sq_tol(kff, kgg, 2 * len(F), sigma)
    ctx.require(abs(v * v - ref2) <= tol, "value", lambda: "heat^2=%r ref^2=%r tol=%r" % (v * v, ref2, tol))


s_triple = dict_of({"fam": diagram_family(count=3, min_size=0, max_size=8), "rel": SIG})


def check_metric(case, ctx):
    fam = case["fam"]
    X, Y, Z = fam["dgms"]
    sigma = fam_sigma(fam, case["rel"])
    labels(ctx, fam, case["rel"])
    ctx.nontrivial(min(offdiag(X), offdiag(Y), offdiag(Z)) >= 2)
    dxy = hd(ctx, X, Y, sigma)
    dyx = hd(ctx, Y, X, sigma)
    dyz = hd(ctx, Y, Z, sigma)
    dxz = hd(ctx, X, Z, sigma)
    ks = [K.heat_kernel(D, D, sigma) for D in (X, Y, Z)]
    n = len(X) + len(Y) + len(Z)
    t2 = sq_tol(sum(ks), 0, n, sigma)
    ctx.require(abs(dxy * dxy - dyx * dyx) <= t2, "asymmetric", lambda: "d(X,Y)=%r d(Y,X)=%r" % (dxy, dyx))
    ctx.require(dxz <= dxy + dyz + 3 * math.sqrt(t2), "triangle", lambda: "d(X,Z)=%r > %r + %r" % (dxz, dxy, dyz))


@st.composite
def s_invariance(draw):
    # integer coordinates and an integer shift: every coordinate difference is exact in float64
    def dgm(lo, hi):
        n = draw(st.integers(lo, hi))
        out = []
        for _ in range(n):
            b = draw(st.integers(-30, 30))
            out.append([float(b), float(b + draw(st.integers(0, 20)))])
        return out
    F, G = dgm(1, 8), dgm(0, 8)
    nd = draw(st.integers(1, 4))
    diag = [[draw(st.integers(0, len(F))), float(draw(st.integers(-30, 50)))] for _ in range(nd)]
    return {"F": F, "G": G, "diag": diag, "shift": draw(st.integers(-1000, 1000)), "sigma": draw(st.sampled_from([0.4, 1.0, 10.0, 100.0, 0.05]))}


def check_invariance(case, ctx):
    F, G, sigma = case["F"], case["G"], case["sigma"]
    ctx.nontrivial(offdiag(F) >= 2 and offdiag(G) >= 2)
    base = hd(ctx, F, G, sigma)
    _, kff, kgg = K.heat_sq(F, G, sigma)
    tol = sq_tol(kff, kgg, len(F) + len(G) + len(case["diag"]), sigma)
    Fd = [list(p) for p in F]
    for pos, t in case["diag"]:
        Fd.insert(min(pos, len(Fd)), [t, t])
    v = hd(ctx, Fd, G, sigma)
    ctx.require(abs(v * v - base * base) <= tol, "diagonal_points_matter", lambda: "with diagonal points %r, without %r" % (v, base))
    v2 = hd(ctx, G, Fd, sigma)
    ctx.require(abs(v2 * v2 - base * base) <= tol, "diagonal_points_matter", lambda: "with diagonal points (2nd arg) %r, without %r" % (v2, base))
    c = float(case["shift"])
    v3 = hd(ctx, [[b + c, d + c] for b, d in F], [[b + c, d + c] for b, d in G], sigma)
    ctx.require(abs(v3 * v3 - base * base) <= tol, "translation", lambda: "translated by %r: %r vs %r" % (c, v3, base))


s_stab = dict_of({"fam": diagram_family(count=2, min_size=0, max_size=8, allow_diag=True), "rel": SIG})


def check_stability(case, ctx):
    fam = case["fam"]
    F, G = fam["dgms"]
    sigma = fam_sigma(fam, case["rel"])
    labels(ctx, fam, case["rel"])
    ctx.nontrivial(offdiag(F) >= 2 and offdiag(G) >= 2)
    v = hd(ctx, F, G, sigma)
    n = len(F) + len(G)
    floor = 1e-13 * n * n / (8 * math.pi * sigma)
    c = 4 * sigma * math.sqrt(math.pi)
    wref = M.wasserstein_ref(F, G)
    ctx.require(v * v <= (wref / c) ** 2 * (1 + 1e-9) + floor, "exceeds_wasserstein_bound",
                lambda: "heat=%r > W1/(4 sigma sqrt pi)=%r (W1=%r, sigma=%r) F=%s G=%s" % (v, wref / c, wref, sigma, F, G))
    wp = float(ctx.call(wasserstein, arr(F) if F else np.zeros((0, 2)), arr(G) if G else np.zeros((0, 2))))
    wp = wp + 1e-9 * sum(abs(x) for p in F + G for x in p)
    ctx.require(v * v <= (wp / c) ** 2 * (1 + 1e-9) + floor, "exceeds_persim_wasserstein_bound",
                lambda: "heat=%r > persim.wasserstein/(4 sigma sqrt pi)=%r" % (v, wp / c))
    tight = (wref / c) ** 2 > 0 and v * v > 0.5 * (wref / c) ** 2
    ctx.label("bound_within_factor_2" if tight else None)




def _valid(case):
    if "fam" in case:
        if not valid_family(case["fam"]) or not case.get("rel", 1) > 0:
            return False
        n = len(case["fam"]["dgms"][0])
        if "perm" in case and sorted(case["perm"]) != list(range(n)):
            return False
        if "noise" in case and len(case["noise"]) != n:
            return False
        return True
    return case["sigma"] > 0 and all(p[1] >= p[0] for p in case["F"] + case["G"])


VALID_DEFAULT = _valid

CLAUSES = [
    Clause("value", s_value, check_value, quick=4000, thorough=60000,
           rule="pairs of 0..10 points; finite real >= 0, never NaN; square equals k(F,F)+k(G,G)-2k(F,G) of a direct float64 "
                "transcription; non-trivial = >= 2 off-diagonal points in each diagram"),
    Clause("reorder_zero", s_reorder(), check_reorder, quick=4000, thorough=60000,
           rule="F (2..10 points, duplicates likely) against a generated permutation of itself: not NaN and squared distance below the "
                "rounding floor; non-trivial = >= 2 off-diagonal points and a non-identity permutation"),
    Clause("near_identical", s_near(), check_near, quick=3000, thorough=40000,
           rule="G = permuted F with every coordinate moved by (-4..4) * 10^-k * max|coord|, k in 3..15; not NaN, square matches the "
                "reference; non-trivial = >= 2 points and reference^2 < 1e-10*(kFF+kGG) (the cancelling regime)"),
    Clause("metric", s_triple, check_metric, quick=2000, thorough=30000,
           rule="triples of 0..8 points: symmetry (squares) and triangle inequality; non-trivial = >= 2 off-diagonal points in each"),
    Clause("invariance", s_invariance(), check_invariance, quick=2000, thorough=30000,
           rule="integer-coordinate diagrams: 1..4 diagonal points inserted (either argument) and integer diagonal translation; all "
                "coordinate differences are exact so squares must agree to the rounding floor; non-trivial = >= 2 off-diagonal points each"),
    Clause("stability", s_stab, check_stability, quick=2000, thorough=30000,
           rule="heat^2 <= (W1/(4 sigma sqrt pi))^2 with W1 from the independent assignment reference and from persim.wasserstein; non-trivial = >= 2 "
                "off-diagonal points each"),
]
