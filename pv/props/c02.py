"""C02 - Wasserstein distance equals the true min-sum matching cost."""
import os

import numpy as np
from hypothesis import strategies as st

from persim import wasserstein

from ..core import Clause, close
from ..oracles import matching as M
from ..strategies import dict_of, diagram_family, valid_family
from ._dist import (decimal_singleton_cases, near_identical_pair, EMPTY_FORMS, INF, as_input, call_quiet, coord_scale, has_dup, lattice_slice_cases,
                    pair_labels, small_pairs)

FUZZ = ["value_small"]
RULE = ("Pairs of diagrams from a shared lattice (ties, duplicates, diagonal points, negative coordinates, scales "
        "10^-6..10^6), ulp-perturbed lattice points and arbitrary floats.")
ASSUMPTIONS = ["diagrams are (n,2) arrays / nested lists or an accepted empty form (extra columns are outside the statement)",
               "brute-force definition for <= 5 points per diagram; independent assignment reference (own Kuhn-Munkres on the reduced-gain matrix) above that, self-checked against the brute force",
               "tolerance 1e-9 * (sum of |coordinates|): the implementation reads diagonal distances off a 45-degree rotation whose "
               "cos and sin differ in the last bit"]


def wscale(A, B):
    return sum(abs(x) for p in A + B for x in p) + 1e-300


def genuinely_mixed(A, B, ref):
    """optimum strictly below both the all-diagonal matching and the best maximum-cardinality matching"""
    if not A or not B:
        return False
    all_diag = sum(M.diag_w(p) for p in A + B)
    if not ref < all_diag * (1 - 1e-12):
        return False
    k = min(len(A), len(B))
    best_full = _best_with_k_pairs(A, B, k)
    return ref < best_full * (1 - 1e-12)


def _best_with_k_pairs(A, B, k):
    from itertools import combinations, permutations
    best = float("inf")
    da = [M.diag_w(p) for p in A]
    db = [M.diag_w(p) for p in B]
    for ia in combinations(range(len(A)), k):
        for jb in permutations(range(len(B)), k):
            v = sum(M.l2(A[i], B[j]) for i, j in zip(ia, jb))
            v += sum(da[i] for i in range(len(A)) if i not in ia) + sum(db[j] for j in range(len(B)) if j not in jb)
            best = min(best, v)
    return best


def check_value_small(case, ctx):
    fam = case["fam"]
    A, B = fam["dgms"]
    pair_labels(ctx, fam, A, B)
    ref, info = M.brute(A, B, "w")
    mixed = genuinely_mixed(A, B, ref)
    ctx.label("genuinely_mixed" if mixed else None, "mixed_optimum" if info["mixed"] else None)
    ctx.nontrivial(len(A) > 0 and len(B) > 0 and (mixed or has_dup(A) or has_dup(B)))
    out, warns = call_quiet(ctx, wasserstein, as_input(A, case["ea"], case["as_list"]), as_input(B, case["eb"], case["as_list"]))
    ctx.require(not warns, "spurious_warning", lambda: "warning without infinite points: %s" % warns[0].message)
    ctx.require(np.ndim(out) == 0 and close(out, ref, wscale(A, B)), "value",
                lambda: "wasserstein=%r, min over all %d matchings=%r; A=%s B=%s" % (out, info["count"], ref, A, B))
    res, _ = call_quiet(ctx, wasserstein, as_input(A, case["ea"], case["as_list"]), as_input(B, case["eb"], case["as_list"]), matching=True)
    ctx.require(isinstance(res, tuple) and close(res[0], ref, wscale(A, B)), "value_with_matching_flag",
                lambda: "wasserstein(..., matching=True) returns distance %r, min over all matchings=%r; A=%s B=%s" % (res[0] if isinstance(res, tuple) else res, ref, A, B))


s_value_small = dict_of({
    "fam": small_pairs(6 if os.environ.get("PV_TIER") == "thorough" else 5), "ea": st.sampled_from(EMPTY_FORMS), "eb": st.sampled_from(EMPTY_FORMS),
    "as_list": st.sampled_from([False, False, True, "narrow"])})


def check_value_medium(case, ctx):
    fam = case["fam"]
    A, B = fam["dgms"]
    pair_labels(ctx, fam, A, B)
    ref = M.wasserstein_ref(A, B)
    if M.n_matchings(len(A), len(B)) <= 2000:
        bf, _ = M.brute(A, B, "w")
        ctx.label("oracle_selfcheck")
        if not close(bf, ref, wscale(A, B)):
            raise RuntimeError("assignment reference disagrees with the definition: %r vs %r on %s %s" % (ref, bf, A, B))
    ctx.nontrivial(min(len(A), len(B)) >= 1 and max(len(A), len(B)) >= 6)
    out, _ = call_quiet(ctx, wasserstein, as_input(A), as_input(B))
    ctx.require(close(out, ref, wscale(A, B)), "value",
                lambda: "wasserstein=%r, independent assignment reference=%r; |A|=%d |B|=%d A=%s B=%s" % (out, ref, len(A), len(B), A, B))


s_value_medium = dict_of({"fam": diagram_family(count=2, min_size=0, max_size=40, dup_bias=True)})


@st.composite
def s_inf(draw):
    fam = draw(small_pairs(5))
    sides = draw(st.sampled_from(["A", "B", "AB"]))
    ins = {}
    for side, d in zip("AB", fam["dgms"]):
        if side in sides:
            k = draw(st.integers(1, 2))
            ins[side] = [[draw(st.integers(0, len(d))), float(draw(st.integers(-5, 5)))] for _ in range(k)]
    return {"fam": fam, "ins": ins}


def check_inf(case, ctx):
    fam = case["fam"]
    A, B = fam["dgms"]
    pair_labels(ctx, fam, A, B)
    full = {"A": [list(p) for p in A], "B": [list(p) for p in B]}
    for side, lst in case["ins"].items():
        for pos, birth in lst:
            full[side].insert(min(pos, len(full[side])), [birth, INF])
    ctx.label("inf_in:" + "".join(s for s in sorted(case["ins"]) if case["ins"][s]))
    ctx.nontrivial(len(A) + len(B) >= 2)
    ref, _ = M.brute(A, B, "w")
    out, warns = call_quiet(ctx, wasserstein, np.array(full["A"], dtype=float).reshape(-1, 2) if full["A"] else np.zeros((0, 2)),
                            np.array(full["B"], dtype=float).reshape(-1, 2) if full["B"] else np.zeros((0, 2)))
    ctx.require(close(out, ref, wscale(A, B)), "inf_influences_value",
                lambda: "with infinite points %r, finite part gives %r" % (out, ref))
    msgs = [str(w.message) for w in warns]
    for side, name in (("A", "dgm1"), ("B", "dgm2")):
        n = sum(1 for m in msgs if name in m)
        if case["ins"].get(side):
            ctx.require(n >= 1, "no_warning", lambda: "no warning naming %s; got %s" % (name, msgs))
        else:
            ctx.require(n == 0, "wrong_warning", lambda: "warning names %s which has no infinite point: %s" % (name, msgs))


def check_slice(case, ctx):
    A, B = case["A"], case["B"]
    ref, info = M.brute(A, B, "w")
    ctx.nontrivial(len(A) > 0 and len(B) > 0 and (info["mixed"] or has_dup(A) or has_dup(B)))
    ctx.label("mixed_optimum" if info["mixed"] else None)
    out = ctx.call(wasserstein, as_input(A), as_input(B))
    ctx.require(close(out, ref, wscale(A, B)), "value", lambda: "wasserstein=%r, definition=%r; A=%s B=%s" % (out, ref, A, B))


def check_near_identical(case, ctx):
    fam = case["fam"]
    A, B = fam["dgms"]
    ctx.label("mode:" + fam["mode"], "k=%d" % case["k"])
    ref, _ = M.brute(A, B, "w")
    ctx.nontrivial(len(A) >= 2 and ref > 0)
    out = ctx.call(wasserstein, as_input(A), as_input(B))
    ctx.require(close(out, ref, wscale(A, B)), "value",
                lambda: "wasserstein=%r, min over all matchings=%r (nearly identical diagrams, perturbation 1e-%d); A=%s B=%s" % (out, ref, case["k"], A, B))


@st.composite
def s_isolated(draw):
    """B = a permuted copy of A (distinct lattice points, persistence >= one lattice unit) moved by at most 3e-6 of the lattice unit:
    the optimal matching is isolated (every other matching costs about a lattice unit more), so the distance is a sum of a few
    exactly computable small costs and can be demanded to RELATIVE accuracy"""
    L = draw(st.integers(3, 8))
    k = draw(st.sampled_from([0, 0, 3, 6, -3, -6]))
    unit = 10.0 ** k
    shift = draw(st.integers(-2 * L, 40 * L))
    n = draw(st.integers(1, 5))
    pts = draw(st.lists(st.tuples(st.integers(0, L), st.integers(1, L)), min_size=n, max_size=n, unique=True))
    A = [[(b + shift) * unit, (b + ln + shift) * unit] for b, ln in pts]
    e = draw(st.integers(6, 13))
    B = [[p[0] + draw(st.integers(-3, 3)) * unit * 10.0 ** (-e), p[1] + draw(st.integers(-3, 3)) * unit * 10.0 ** (-e)] for p in A]
    extra = draw(st.booleans())
    if extra:
        # one further short bar in B only: it goes to the diagonal, at a cost comparable to the lattice unit
        b = (draw(st.integers(0, L)) + shift) * unit
        B.append([b, b + unit * draw(st.sampled_from([0.5, 0.25, 1.0]))])
    perm = draw(st.permutations(list(range(len(B)))))
    return {"A": A, "B": [B[i] for i in perm], "e": e, "unit": unit, "extra": extra}


def check_isolated(case, ctx):
    A, B = case["A"], case["B"]
    ref, info = M.brute(A, B, "w")
    ctx.label("perturbation=1e-%d" % case["e"], "unit=%g" % case["unit"], "extra_bar" if case["extra"] else None)
    ctx.nontrivial(len(A) >= 2 and ref > 0)
    out = ctx.call(wasserstein, as_input(A), as_input(B))
    # the moved points cost exactly representable differences; a bar sent to the diagonal is rounded relative to its coordinates
    tol = 1e-9 * ref + (64 * 2.2e-16 * max(abs(x) for p in A + B for x in p) if case["extra"] else 0.0)
    ctx.require(abs(float(out) - ref) <= tol, "value_relative",
                lambda: "wasserstein=%r, min over all matchings=%r (relative error %.3g; isolated optimum, perturbation 1e-%d of the lattice unit %g); A=%s B=%s"
                % (out, ref, abs(float(out) - ref) / ref if ref else 0.0, case["e"], case["unit"], A, B))
    o2 = ctx.call(wasserstein, as_input(B), as_input(A))
    ctx.require(abs(float(o2) - ref) <= tol, "value_relative", lambda: "wasserstein(B, A)=%r, min over all matchings=%r; A=%s B=%s" % (o2, ref, A, B))


def check_decimal(case, ctx):
    A, B = case["A"], case["B"]
    ref, _ = M.brute(A, B, "w")
    ctx.nontrivial(len(A) > 0 and len(B) > 0)
    out = ctx.call(wasserstein, as_input(A), as_input(B))
    ctx.require(close(out, ref, wscale(A, B)), "value", lambda: "wasserstein=%r, definition=%r; A=%s B=%s" % (out, ref, A, B))


CLAUSES = [
    Clause("value_small", s_value_small, check_value_small, quick=6400, thorough=80000,
           floors={"genuinely_mixed": 0.03},
           rule="0..5 points each (0..6 in the thorough tier), all empty forms, float64 array, nested-list or narrowest-integer-array (uint8 / int16 / int32) input; oracle = minimum over ALL partial matchings; "
                "non-trivial = both non-empty and (the optimum is strictly cheaper than both the all-diagonal matching and the best "
                "maximum-cardinality matching, i.e. genuinely mixes cross and diagonal pairs, or a point is repeated)"),
    Clause("value_medium", s_value_medium, check_value_medium, quick=960, thorough=8000,
           rule="0..40 points each; oracle = own Kuhn-Munkres on the reduced-gain matrix, self-checked against the brute force whenever <= 2000 matchings; "
                "non-trivial = both non-empty and one has >= 6 points"),
    Clause("near_identical", near_identical_pair(5), check_near_identical, quick=3200, thorough=40000,
           rule="B = permuted copy of A (1..5 points) with coordinates moved by (-3..3)*10^-k*max|coord|, k in 3..15; brute-force oracle; "
                "non-trivial = >= 2 points and a non-zero true distance"),
    Clause("isolated_optimum", s_isolated(), check_isolated, quick=3200, thorough=40000,
           rule="B = permuted copy of A (1..5 distinct lattice points, shift up to 40 lattice widths) moved by (-3..3) x 1e-6..1e-13 lattice units, optionally one "
                "extra short bar: the optimum is isolated, so the value is demanded to RELATIVE accuracy 1e-9 (plus a few ulps of the coordinates when a bar "
                "goes to the diagonal), in both argument orders; non-trivial = >= 2 points and a non-zero distance"),
    Clause("inf_dropped", s_inf(), check_inf, quick=1600, thorough=20000,
           rule="1..2 points with infinite death inserted at generated positions; value equals the brute-force value of the finite "
                "parts and a UserWarning names exactly the affected argument(s); non-trivial = >= 2 finite points overall"),
    Clause("lattice_slice", cases=lambda: lattice_slice_cases(2, 4), check=check_slice,
           rule="EXHAUSTIVE: all 23409 ordered pairs of multisets of <= 2 points on the 16-point lattice {(b,b+l): b,l in 0..3}; "
                "non-trivial = both non-empty and (some optimal matching mixes cross and diagonal pairs or a point is repeated)"),
    Clause("decimal_singletons", cases=decimal_singleton_cases, check=check_decimal,
           rule="EXHAUSTIVE: all 4 x 8281 ordered pairs of diagrams with <= 1 point on {(b,b+l)*s: b in 0..9, l in 1..9} for the decimal steps "
                "s in {0.1, 0.01, 1/3, 0.7} (coordinates not exactly representable: mathematically equal candidate costs differ by an ulp); "
                "non-trivial = both non-empty"),
    Clause("lattice_slice_3", cases=lambda: lattice_slice_cases(3, 3), check=check_slice, thorough_only=True,
           rule="EXHAUSTIVE, thorough tier only: all 48400 ordered pairs of multisets of <= 3 points on the 9-point lattice {(b,b+l): b,l in 0..2}"),
]


def _valid_isolated(case):
    """the shrinker edits the JSON blindly: keep only cases that still have the isolated-optimum structure"""
    try:
        A, B, unit = case["A"], case["B"], case["unit"]
        if not A or len(B) != len(A) + (1 if case["extra"] else 0) or not 6 <= case["e"] <= 13 or unit <= 0:
            return False
        if any(len(p) != 2 or not p[1] - p[0] >= 0.2 * unit for p in A + B):
            return False
        for i, p in enumerate(A):
            if any(abs(p[0] - q[0]) < 0.5 * unit and abs(p[1] - q[1]) < 0.5 * unit for q in A[i + 1:]):
                return False
            if sum(1 for q in B if abs(p[0] - q[0]) <= 4e-6 * unit and abs(p[1] - q[1]) <= 4e-6 * unit) != 1:
                return False
        return True
    except Exception:
        return False


VALID = {"isolated_optimum": _valid_isolated}


def VALID_DEFAULT(case):
    if "fam" in case:
        return valid_family(case["fam"])
    return all(p[1] >= p[0] for p in case["A"] + case["B"])
