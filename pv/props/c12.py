"""C12 - imager geometry stays self-consistent under any configuration history (model-based histories)."""
from fractions import Fraction

import numpy as np
from hypothesis import strategies as st

from persim import PersistenceImager

from ..core import Clause, close
from ..strategies import finite
from . import _img as I

FUZZ = ["history"]
RULE = ("A history = constructor arguments + a generated list of operations (birth_range / pers_range / pixel_size assignment, fit on one "
        "diagram or a list, skew either way, and two STATE-DEPENDENT operations resolved at run time: pixel_size := current extent / k, range := lo + m * current pixel_size) interpreted against the real object; the invariant is evaluated after construction and after "
        "EVERY operation, the post-condition after the operation it concerns. Values come from a table of decimals whose quotients are "
        "inexact in binary (0.1, 0.2, 0.3, 0.7, 1/3, 0.05, 0.9, 1.1, 3.3 ... times small integers) and from arbitrary positive floats; "
        "image kept <= 40000 pixels and <= 6000 pixels per axis (cost bound only); every length of a history is multiplied by a generated unit (1e-10 .. 1e8). The history is one shrinkable value and the replay file is the history itself.")
ASSUMPTIONS = [
    "ranges have positive extent; fitted data span a positive extent in birth and in persistence as computed by the routine itself (d - b in float64)",
    "geometry is probed through the public API only: a unit-weight point with a uniform kernel of side pixel_size/2 (kernel_params is a public "
    "attribute) centred where the public ranges say pixel (i,j) is must give img[i,j] == 1 and 0 elsewhere",
    "tolerances 1e-9 * scale; 'at most one pixel' is read as <= pixel_size * (1 + 1e-9)",
]

DECIMALS = [0.1, 0.2, 0.3, 0.7, 1.0 / 3.0, 0.05, 0.9, 1.1, 3.3, 0.6, 0.15, 0.25, 1.0, 0.75, 2.0, 0.35, 1e-3, 12.5]


@st.composite
def pixel(draw):
    return draw(st.one_of(st.sampled_from(DECIMALS), st.sampled_from(DECIMALS), finite(0.01, 10.0)))


@st.composite
def rng_for(draw, s):
    """a range (lo, hi) of positive extent whose extent / s stays <= 64"""
    kind = draw(st.sampled_from(["multiple", "multiple", "decimal", "free"]))
    lo = draw(st.one_of(st.sampled_from([0.0, 0.0, 0.1, -0.3, 1.0, -1.0, 0.7, 2.5]), finite(-10, 10)))
    if kind == "multiple":
        m = draw(st.integers(1, 12))
        hi = lo + m * s
        if lo == 0.0 and draw(st.booleans()):
            hi = m * s
    elif kind == "decimal":
        d = draw(st.sampled_from(DECIMALS))
        m = draw(st.integers(1, 12))
        hi = lo + m * d
    else:
        hi = lo + draw(finite(0.05, 40.0)) * s
    if not hi > lo:
        hi = lo + s
    if (hi - lo) / s > 64:
        hi = lo + 64 * s
    lo, hi = float(lo), float(hi)
    if draw(st.integers(0, 5)) == 0 and lo == int(lo) and hi == int(hi):
        return [int(lo), int(hi)]
    return [lo, hi]


@st.composite
def fit_data(draw, s):
    k = draw(st.sampled_from([1, 1, 2, 3]))
    dgms = []
    forms = []
    for _ in range(k):
        n = draw(st.integers(2, 5))
        pts = []
        integral = draw(st.integers(0, 3)) == 0
        for _ in range(n):
            if integral:
                # an integer-valued diagram, handed over as an integer array or a nested list of ints (mixed with fractional ones in a list)
                mult = draw(st.sampled_from([1, 1, 20]))        # x20: births -100..100, an extent that does not fit int8
                b = draw(st.integers(-5, 5)) * mult
                pts.append([b, b + min(draw(st.integers(1, 6)) * mult, max(1, int(30 * s)))])
                continue
            b = draw(st.one_of(st.sampled_from([0.0, 0.1, 0.3, 0.7, 1.0, -0.2, 2.5]), finite(-5, 5)))
            p = draw(st.one_of(st.sampled_from(DECIMALS), finite(0.01, 20.0))) * draw(st.sampled_from([1, 1, 2, 3]))
            p = min(p, 30 * s)
            pts.append([float(b), float(b + p)])
        dgms.append(pts)
        forms.append(draw(st.sampled_from(["int", "int", "list"])) if integral else "float")
    return {"dgms": dgms, "single": k == 1 and draw(st.booleans()), "skew": draw(st.booleans()), "forms": forms,
            # an empty (0,2) diagram among the fitted ones (ripser returns one whenever a degree has no class): it adds no point to enclose
            "with_empty": draw(st.integers(0, 4)) == 0}


@st.composite
def history(draw, max_ops=8):
    s = draw(pixel())
    case = {"init": {"birth_range": draw(rng_for(s)), "pers_range": draw(rng_for(s)), "pixel": s}, "ops": [],
            "probe": [draw(finite(0.0, 0.999)), draw(finite(0.0, 0.999))],
            # every length of the history is multiplied by this factor by the interpreter (geometry must simply rescale)
            "unit": draw(st.sampled_from([1.0, 1.0, 1.0, 1e-10, 1e-6, 1e3, 1e8, 3.7e-5]))}
    if draw(st.integers(0, 9)) == 0:
        # one long axis (thousands of pixels) next to a short one: cost stays low, pixel counts do not
        m = draw(st.sampled_from([4095, 4096, 4097, 5000, 1000, 2500]))
        case["init"]["birth_range"] = [0.0, m * s]
        case["init"]["pers_range"] = [0.0, 2 * s]
    n = draw(st.integers(1, max_ops))
    for _ in range(n):
        op = draw(st.sampled_from(["birth_range", "pers_range", "pixel", "fit", "pixel_div", "range_pixels"]))
        if op == "pixel_div":
            # state-dependent argument, resolved by the interpreter: pixel_size := (current width or height) / k
            case["ops"].append({"op": "pixel_div", "axis": draw(st.sampled_from(["birth", "pers"])), "k": draw(st.integers(1, 12))})
            continue
        if op == "range_pixels":
            # state-dependent: range := (lo, lo + m * current pixel_size), lo from the current range or a decimal
            case["ops"].append({"op": "range_pixels", "axis": draw(st.sampled_from(["birth", "pers"])), "m": draw(st.integers(1, 14)),
                                "lo": draw(st.sampled_from(["keep", 0.0, 0.1, -0.3, 1.0]))})
            continue
        if op == "pixel":
            s2 = draw(pixel())
            # keep the resolution bounded (cost only): extents were built for the old pixel size
            case["ops"].append({"op": "pixel", "val": s2})
            s = s2
        elif op == "fit":
            case["ops"].append(dict(draw(fit_data(s)), op="fit"))
        else:
            case["ops"].append({"op": op, "val": draw(rng_for(s))})
    return case


def scale_of(imgr):
    return max(1e-300, abs(imgr.birth_range[0]), abs(imgr.birth_range[1]), abs(imgr.pers_range[0]), abs(imgr.pers_range[1]),
               imgr.pixel_size)


def invariant(ctx, imgr, probe, step):
    res = imgr.resolution
    s = imgr.pixel_size
    sc = scale_of(imgr)
    tag = "after %s: " % step
    ctx.require(isinstance(res, tuple) and len(res) == 2 and all(isinstance(r, (int, np.integer)) and r >= 1 for r in res),
                "resolution_not_positive_ints", lambda: tag + "resolution=%r" % (res,))
    if res[0] * res[1] > 40000 or max(res) > 6000:
        ctx.skip("resolution beyond the cost bound")
    ctx.label("long_axis" if max(res) > 4000 else None)
    br, pr = imgr.birth_range, imgr.pers_range
    ctx.require(close(res[0] * s, imgr.width, sc) and close(res[1] * s, imgr.height, sc), "resolution_times_pixel_ne_extent",
                lambda: tag + "resolution=%r pixel_size=%r width=%r height=%r" % (res, s, imgr.width, imgr.height))
    ctx.require(close(imgr.width, br[1] - br[0], sc) and close(imgr.height, pr[1] - pr[0], sc), "extent_ne_range",
                lambda: tag + "width=%r birth_range=%r height=%r pers_range=%r" % (imgr.width, br, imgr.height, pr))
    # pixels are squares of the configured size located where the public ranges say
    i = min(int(probe[0] * res[0]), res[0] - 1)
    j = min(int(probe[1] * res[1]), res[1] - 1)
    imgr.kernel_params = {"width": s / 2.0, "height": s / 2.0}
    pt = np.array([[br[0] + (i + 0.5) * s, pr[0] + (j + 0.5) * s]], dtype=float)
    img = np.asarray(ctx.call(imgr.transform, pt, skew=False))
    ctx.require(img.shape == tuple(res), "image_shape_ne_resolution", lambda: tag + "image shape %s, resolution %s" % (img.shape, res))
    coll = ctx.call(imgr.transform, [pt, np.zeros((0, 2))], skew=False)
    ctx.require(len(coll) == 2 and all(np.asarray(c).shape == tuple(res) for c in coll), "image_shape_ne_resolution",
                lambda: tag + "images of a collection [diagram, empty diagram] have shapes %s, resolution %s" % ([np.asarray(c).shape for c in coll], res))
    ok = abs(img[i, j] - 1.0) <= 1e-6 and abs(img.sum() - img[i, j]) <= 1e-6
    ctx.require(ok, "pixel_misplaced", lambda: tag + "unit point centred in pixel (%d,%d) of size %r gives img[i,j]=%r, total %r (resolution %s, ranges %s %s)"
                % (i, j, s, img[i, j], img.sum(), res, br, pr))


def covers(ctx, got, want, s, sc, what, step):
    tol = 1e-9 * sc
    ctx.require(got[0] <= want[0] + tol and got[1] >= want[1] - tol, "range_does_not_cover",
                lambda: "after %s: %s range %r does not contain %r" % (step, what, tuple(got), tuple(want)))
    ctx.require((got[1] - got[0]) - (want[1] - want[0]) <= s * (1 + 1e-9) + tol, "range_exceeds_by_more_than_a_pixel",
                lambda: "after %s: %s range %r exceeds %r by more than one pixel (%r)" % (step, what, tuple(got), tuple(want), s))


def _scaled(case):
    u = case.get("unit", 1.0)
    if u == 1.0:
        return case
    def sc(v):
        return [x * u for x in v]
    out = {"init": {"birth_range": sc(case["init"]["birth_range"]), "pers_range": sc(case["init"]["pers_range"]), "pixel": case["init"]["pixel"] * u},
           "probe": case["probe"], "ops": []}
    for op in case["ops"]:
        o = dict(op)
        if op["op"] in ("birth_range", "pers_range"):
            o["val"] = sc(op["val"])
        elif op["op"] == "pixel":
            o["val"] = op["val"] * u
        elif op["op"] == "fit":
            o["dgms"] = [[sc(q) for q in d] for d in op["dgms"]]
        elif op["op"] == "range_pixels" and op["lo"] != "keep":
            o["lo"] = op["lo"] * u
        out["ops"].append(o)
    return out


def run_history(case, ctx):
    ctx.label("unit:%g" % case.get("machine_unit", case.get("unit", 1.0)))
    case = _scaled(case)
    init = case["init"]
    wt, wp = I.w_const, {"value": 1.0}
    s = init["pixel"]
    imgr = ctx.call(PersistenceImager, birth_range=tuple(init["birth_range"]), pers_range=tuple(init["pers_range"]), pixel_size=s,
                    weight=wt, weight_params=wp, kernel="uniform", kernel_params={"width": s / 2.0, "height": s / 2.0})
    sc = max(scale_of(imgr), abs(init["birth_range"][0]), abs(init["birth_range"][1]))
    covers(ctx, imgr.birth_range, init["birth_range"], s, sc, "birth", "construction")
    covers(ctx, imgr.pers_range, init["pers_range"], s, sc, "pers", "construction")
    ctx.require(imgr.pixel_size == s, "pixel_size_changed", lambda: "pixel_size %r after constructing with %r" % (imgr.pixel_size, s))
    invariant(ctx, imgr, case["probe"], "construction")
    inexact = _inexact(init["birth_range"], s) or _inexact(init["pers_range"], s)
    kinds = set()
    for n, op in enumerate(case["ops"]):
        if op["op"] == "pixel_div":
            ext = imgr.width if op["axis"] == "birth" else imgr.height
            if not op["k"] >= 1:
                ctx.skip("malformed op (shrinker)")
            op = {"op": "pixel", "val": float(ext) / op["k"], "via": "pixel_div"}
        elif op["op"] == "range_pixels":
            cur = imgr.birth_range if op["axis"] == "birth" else imgr.pers_range
            lo = float(cur[0]) if op["lo"] == "keep" else float(op["lo"])
            if not op["m"] >= 1:
                ctx.skip("malformed op (shrinker)")
            op = {"op": "birth_range" if op["axis"] == "birth" else "pers_range", "val": [lo, lo + op["m"] * imgr.pixel_size], "via": "range_pixels"}
        step = "op %d (%s%s)" % (n, op["op"], " via " + op["via"] if "via" in op else "")
        if "via" in op:
            kinds.add(op["via"])
        old_b, old_p, old_s = imgr.birth_range, imgr.pers_range, imgr.pixel_size
        kinds.add(op["op"])
        if op["op"] == "birth_range":
            ctx.call(setattr, imgr, "birth_range", tuple(op["val"]))
            sc = max(scale_of(imgr), abs(op["val"][0]), abs(op["val"][1]))
            covers(ctx, imgr.birth_range, op["val"], imgr.pixel_size, sc, "birth", step)
            ctx.require(close(imgr.pers_range[0], old_p[0], sc) and close(imgr.pers_range[1], old_p[1], sc), "other_axis_moved",
                        lambda: "%s moved pers_range from %r to %r" % (step, old_p, imgr.pers_range))
            inexact |= _inexact(op["val"], imgr.pixel_size)
        elif op["op"] == "pers_range":
            ctx.call(setattr, imgr, "pers_range", tuple(op["val"]))
            sc = max(scale_of(imgr), abs(op["val"][0]), abs(op["val"][1]))
            covers(ctx, imgr.pers_range, op["val"], imgr.pixel_size, sc, "pers", step)
            ctx.require(close(imgr.birth_range[0], old_b[0], sc) and close(imgr.birth_range[1], old_b[1], sc), "other_axis_moved",
                        lambda: "%s moved birth_range from %r to %r" % (step, old_b, imgr.birth_range))
            inexact |= _inexact(op["val"], imgr.pixel_size)
        elif op["op"] == "pixel":
            if ((old_b[1] - old_b[0]) / op["val"] + 1) * ((old_p[1] - old_p[0]) / op["val"] + 1) > 40000 or max(old_b[1] - old_b[0], old_p[1] - old_p[0]) / op["val"] > 6000:
                ctx.skip("resolution beyond the cost bound")
            ctx.call(setattr, imgr, "pixel_size", op["val"])
            ctx.require(imgr.pixel_size == op["val"], "pixel_size_not_set", lambda: "pixel_size %r after assigning %r" % (imgr.pixel_size, op["val"]))
            sc = scale_of(imgr)
            covers(ctx, imgr.birth_range, old_b, op["val"], sc, "birth", step)
            covers(ctx, imgr.pers_range, old_p, op["val"], sc, "pers", step)
            inexact |= _inexact(old_b, op["val"]) or _inexact(old_p, op["val"])
        elif op["op"] == "fit":
            arrays = [np.array(d, dtype=float) for d in op["dgms"]]
            bs, ps = [], []
            for a in arrays:
                if op["skew"]:
                    bs.extend(a[:, 0].tolist())
                    ps.extend((a[:, 1] - a[:, 0]).tolist())
                else:
                    bs.extend(a[:, 0].tolist())
                    ps.extend(a[:, 1].tolist())
            if not (max(bs) > min(bs) and max(ps) > min(ps)):
                ctx.skip("fitted data without positive extent (outside the stated domain)")
            if ((max(bs) - min(bs)) / imgr.pixel_size + 1) * ((max(ps) - min(ps)) / imgr.pixel_size + 1) > 40000:
                ctx.skip("resolution beyond the cost bound")
            given = []
            for a, form, d in zip(arrays, op.get("forms") or ["float"] * len(arrays), op["dgms"]):
                if form in ("int", "list") and case.get("unit", 1.0) == 1.0 and all(float(v).is_integer() for q in d for v in q):
                    if form == "int":
                        # the narrowest integer type that holds the values (int8 data spanning more than 127 cannot hold its own extent)
                        flat = [int(v) for q in d for v in q]
                        dtp = next(t for t in (np.uint8, np.int8, np.int16, np.int32, np.int64) if np.iinfo(t).min <= min(flat) and max(flat) <= np.iinfo(t).max)
                        given.append(np.array(d, dtype=dtp))
                        kinds.add("fit_" + np.dtype(dtp).name)
                    else:
                        given.append([[int(v) for v in q] for q in d])
                    kinds.add("fit_integer_form")
                else:
                    given.append(a)
            if op.get("with_empty"):
                given.insert(len(given) // 2, np.zeros((0, 2)))
                kinds.add("fit_with_empty_diagram")
            arg = given[0] if (op["single"] and len(given) == 1) else given
            ctx.call(imgr.fit, arg, skew=op["skew"])
            sc = max(scale_of(imgr), max(abs(x) for x in bs + ps))
            covers(ctx, imgr.birth_range, (min(bs), max(bs)), imgr.pixel_size, sc, "birth", step)
            covers(ctx, imgr.pers_range, (min(ps), max(ps)), imgr.pixel_size, sc, "pers", step)
            ctx.require(imgr.pixel_size == old_s, "pixel_size_changed", lambda: "fit changed pixel_size %r -> %r" % (old_s, imgr.pixel_size))
            inexact |= _inexact((min(bs), max(bs)), old_s) or _inexact((min(ps), max(ps)), old_s)
        else:
            ctx.skip("unknown op (shrinker)")
        invariant(ctx, imgr, case["probe"], step)
    ctx.label("inexact_or_nonmultiple" if inexact else "exact_multiples_only", "ops=%d" % len(case["ops"]), *("op:" + k for k in sorted(kinds)))
    ctx.nontrivial(inexact)


def _inexact(rng, s):
    """extent / pixel_size is not an integer, or is not exactly representable (float quotient != exact quotient)"""
    ext = rng[1] - rng[0]
    q = Fraction(ext) / Fraction(s)
    return q.denominator != 1 or float(q) != ext / s or Fraction(rng[1]) - Fraction(rng[0]) != Fraction(ext)


def slice_cases():
    """constructor and each single setter over the table of awkward decimals x multipliers 1..12"""
    for s in DECIMALS:
        for d in DECIMALS:
            for m in range(1, 13):
                ext = m * d
                if ext / s > 64 or ext / s < 0.05:
                    continue
                for lo in (0.0, 0.1):
                    base = {"probe": [0.99, 0.5]}
                    yield dict(base, init={"birth_range": [lo, lo + ext], "pers_range": [0.0, 3 * s], "pixel": s}, ops=[])
                    yield dict(base, init={"birth_range": [0.0, 2 * s], "pers_range": [0.0, 2 * s], "pixel": s},
                               ops=[{"op": "pers_range", "val": [lo, lo + ext]}])
                    yield dict(base, init={"birth_range": [lo, lo + ext], "pers_range": [0.0, 1.0], "pixel": 1.0},
                               ops=[{"op": "pixel", "val": s}])


def imager_machine(record):
    """Hypothesis rule-based state machine: the rules drive a LIVE imager and draw their arguments from its current state (ranges a
    fraction of a pixel away from the present ones, pixel sizes that divide the present extent with or without remainder, fits on data
    lying exactly on the present borders); every operation is appended, with its concrete values, to a history in the format of the
    data-driven clauses, and the finished history is judged step by step by run_history on a fresh object (so the replay file is again
    just the history). An exception raised by the live object ends the history there; run_history then reports it properly."""
    from hypothesis.stateful import RuleBasedStateMachine, initialize, precondition, rule

    FR = [0.0, 0.5, 1.0, 1.0 / 3.0, 0.25, 1e-9, 0.999999999, 2.0, 0.1, 0.7]

    class ImagerMachine(RuleBasedStateMachine):
        def __init__(self):
            super().__init__()
            self.case = None
            self.imgr = None
            self.dead = False

        @initialize(s0=pixel(), u=st.sampled_from([1.0, 1.0, 1.0, 1e-10, 1e-6, 1e3, 1e8, 3.7e-5]), data=st.data())
        def construct(self, s0, u, data):
            # every length of the history is expressed in a generated absolute unit (the recorded values are the concrete, scaled ones)
            self.u = u
            s = s0 * u
            br, pr = [float(x) * u for x in data.draw(rng_for(s0))], [float(x) * u for x in data.draw(rng_for(s0))]
            self.case = {"init": {"birth_range": br, "pers_range": pr, "pixel": s}, "ops": [],
                         "probe": [data.draw(finite(0.0, 0.999)), data.draw(finite(0.0, 0.999))], "unit": 1.0, "machine": True, "machine_unit": u}
            try:
                self.imgr = PersistenceImager(birth_range=tuple(br), pers_range=tuple(pr), pixel_size=s, weight=I.w_const, weight_params={"value": 1.0},
                                              kernel="uniform", kernel_params={"width": s / 2.0, "height": s / 2.0})
            except Exception:  # noqa: BLE001 - reported by run_history at teardown
                self.dead = True

        def alive(self):
            return self.case is not None and not self.dead and len(self.case["ops"]) < 30

        def _affordable(self, br, pr, s):
            nb, npx = (br[1] - br[0]) / s, (pr[1] - pr[0]) / s
            return s > 0 and br[1] > br[0] and pr[1] > pr[0] and (nb + 1) * (npx + 1) <= 40000 and max(nb, npx) <= 6000

        def _do(self, op, fn):
            self.case["ops"].append(op)
            try:
                fn()
            except Exception:  # noqa: BLE001
                self.dead = True

        @precondition(lambda self: self.alive())
        @rule(axis=st.sampled_from(["birth", "pers"]), a=st.integers(-3, 3), b=st.integers(-3, 3), fa=st.sampled_from(FR), fb=st.sampled_from(FR))
        def move_range_by_pixel_fractions(self, axis, a, b, fa, fb):
            im = self.imgr
            cur = im.birth_range if axis == "birth" else im.pers_range
            s = im.pixel_size
            new = [float(cur[0] + a * fa * s), float(cur[1] + b * fb * s)]
            other = im.pers_range if axis == "birth" else im.birth_range
            if not self._affordable(new, other, s):
                return
            self._do({"op": axis + "_range", "val": new, "via": "move_range_by_pixel_fractions"}, lambda: setattr(im, axis + "_range", tuple(new)))

        @precondition(lambda self: self.alive())
        @rule(axis=st.sampled_from(["birth", "pers"]), k=st.integers(1, 14), rem=st.sampled_from([0.0, 0.0, 0.5, 1.0 / 3.0, 1e-9, -1e-9]))
        def pixel_dividing_the_extent(self, axis, k, rem):
            im = self.imgr
            ext = im.width if axis == "birth" else im.height
            val = float(ext / (k + rem))
            if not self._affordable(im.birth_range, im.pers_range, val):
                return
            self._do({"op": "pixel", "val": val, "via": "pixel_dividing_the_extent"}, lambda: setattr(im, "pixel_size", val))

        @precondition(lambda self: self.alive())
        @rule(axis=st.sampled_from(["birth", "pers"]), m=st.sampled_from([4095, 4096, 4097, 5000, 1000, 2500]))
        def one_long_axis(self, axis, m):
            """thousands of pixels along one axis next to a short other axis (cost stays low, pixel counts do not)"""
            im = self.imgr
            s = im.pixel_size
            cur = im.birth_range if axis == "birth" else im.pers_range
            other = im.pers_range if axis == "birth" else im.birth_range
            new = [float(cur[0]), float(cur[0] + m * s)]
            if not self._affordable(new, other, s):
                return
            self._do({"op": axis + "_range", "val": new, "via": "one_long_axis"}, lambda: setattr(im, axis + "_range", tuple(new)))

        @precondition(lambda self: self.alive())
        @rule(val=pixel())
        def set_pixel(self, val):
            im = self.imgr
            val = val * self.u
            if not self._affordable(im.birth_range, im.pers_range, val):
                return
            self._do({"op": "pixel", "val": val}, lambda: setattr(im, "pixel_size", val))

        @precondition(lambda self: self.alive())
        @rule(axis=st.sampled_from(["birth", "pers"]), data=st.data())
        def set_range(self, axis, data):
            im = self.imgr
            new = [float(x) * self.u for x in data.draw(rng_for(im.pixel_size / self.u))]
            other = im.pers_range if axis == "birth" else im.birth_range
            if not self._affordable([float(new[0]), float(new[1])], other, im.pixel_size):
                return
            self._do({"op": axis + "_range", "val": new}, lambda: setattr(im, axis + "_range", tuple(new)))

        @precondition(lambda self: self.alive())
        @rule(skew=st.booleans(), inner=st.lists(st.tuples(finite(0.0, 1.0), finite(0.0, 1.0)), min_size=0, max_size=3), single=st.booleans(),
              grow=st.sampled_from([0.0, 0.0, 0.5, 1.0, 1e-9]))
        def fit_on_the_present_borders(self, skew, inner, single, grow):
            """data whose extreme births / persistences are exactly the present range ends (optionally pushed out by a pixel fraction)"""
            im = self.imgr
            (b0, b1), (p0, p1), s = im.birth_range, im.pers_range, im.pixel_size
            b1, p1 = b1 + grow * s, p1 + grow * s
            if p0 < 0:
                return
            bp = [[b0, p0], [b1, p1]] + [[b0 + u * (b1 - b0), p0 + v * (p1 - p0)] for u, v in inner]
            if not self._affordable([b0, b1], [p0, p1], s):
                return
            # the history format stores birth-death pairs; with skew=False the interpreter hands the same numbers over as birth-persistence
            pts = [[float(b), float(b + p)] for b, p in bp] if skew else [[float(b), float(p)] for b, p in bp]
            if any(q[1] < q[0] for q in pts):
                return
            op = {"op": "fit", "dgms": [pts], "single": single, "skew": skew, "forms": ["float"], "via": "fit_on_the_present_borders"}
            arr = np.array(pts, dtype=float)
            ps = ((arr[:, 1] - arr[:, 0]) if skew else arr[:, 1]).tolist()
            if not (max(ps) > min(ps) and arr[:, 0].max() > arr[:, 0].min()):
                return
            self._do(op, lambda: im.fit(arr if single else [arr], skew=skew))

        @precondition(lambda self: self.alive())
        @rule(data=st.data())
        def fit_generated(self, data):
            im = self.imgr
            fd = data.draw(fit_data(im.pixel_size / self.u))
            fd["dgms"] = [[[float(q[0]) * self.u, float(q[1]) * self.u] for q in d] for d in fd["dgms"]]
            arrays = [np.array(d, dtype=float) for d in fd["dgms"]]
            bs = [v for a in arrays for v in a[:, 0].tolist()]
            ps = [v for a in arrays for v in ((a[:, 1] - a[:, 0]) if fd["skew"] else a[:, 1]).tolist()]
            if not (max(bs) > min(bs) and max(ps) > min(ps)) or not self._affordable([min(bs), max(bs)], [min(ps), max(ps)], im.pixel_size):
                return      # outside the stated domain (no positive extent) or beyond the cost bound: not part of the history
            self._do(dict(fd, op="fit", forms=["float"] * len(arrays)), lambda: im.fit(arrays[0] if (fd["single"] and len(arrays) == 1) else arrays, skew=fd["skew"]))

        def teardown(self):
            if self.case is not None:
                record(self.case)

    return ImagerMachine


def VALID_DEFAULT(case):
    try:
        i = case["init"]
        if not (i["pixel"] > 0 and i["birth_range"][1] > i["birth_range"][0] and i["pers_range"][1] > i["pers_range"][0]):
            return False
        if len(case["probe"]) != 2 or not all(0 <= x < 1 for x in case["probe"]):
            return False
        for op in case["ops"]:
            if op["op"] in ("birth_range", "pers_range"):
                if not (len(op["val"]) == 2 and op["val"][1] > op["val"][0]):
                    return False
            elif op["op"] == "pixel":
                if not op["val"] > 0:
                    return False
            elif op["op"] in ("pixel_div", "range_pixels"):
                if op["axis"] not in ("birth", "pers"):
                    return False
            elif op["op"] == "fit":
                if not op["dgms"] or any(len(d) < 1 or any(len(q) != 2 or q[1] < q[0] for q in d) for d in op["dgms"]):
                    return False
                if op["single"] and len(op["dgms"]) != 1:
                    return False
            else:
                return False
    except Exception:
        return False
    return True


CLAUSES = [
    Clause("history", history(8), run_history, quick=4000, thorough=40000, floors={"inexact_or_nonmultiple": 0.3},
           rule="constructor + 1..8 operations; non-trivial = the history contains an operation (or the constructor) whose extent/pixel_size is "
                "not an integer or not exactly representable"),
    Clause("long_history", history(20), run_history, quick=800, thorough=16000,
           rule="as history with up to 20 operations"),
    Clause("state_machine", machine=imager_machine, machine_steps=14, check=run_history, quick=1600, thorough=16000,
           rule="hypothesis.stateful.RuleBasedStateMachine driving a live imager: rules draw their arguments from the CURRENT state (ranges moved by "
                "pixel fractions incl. 1e-9 and 1/3, pixel sizes dividing the present extent with remainders 0, 1/2, 1/3, +-1e-9, fits on data lying exactly "
                "on the present borders), up to 14 steps; the recorded history is judged step by step like every other history; non-trivial as above"),
    Clause("decimal_slice", cases=slice_cases, check=run_history,
           rule="EXHAUSTIVE over the table: constructor / pers_range setter / pixel_size setter for every (pixel size, decimal, multiplier 1..12, "
                "offset 0 or 0.1) with 0.05 <= extent/pixel <= 64"),
]
