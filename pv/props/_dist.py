"""Helpers shared by the bottleneck / Wasserstein properties (C01, C02, C06, C07)."""
import warnings

import numpy as np
from hypothesis import strategies as st

from ..oracles import matching as M
from ..strategies import diagram_family

INF = float("inf")

EMPTY_FORMS = ["zeros02", "array_empty", "list_empty", "array_nested_empty"]


def empty_input(form):
    return {"zeros02": np.zeros((0, 2)), "array_empty": np.array([]), "list_empty": [],
            "array_nested_empty": np.array([[]])}[form]


def as_input(points, empty_form="zeros02", as_list=False):
    """as_list: False = float64 array, True = nested list, "narrow" = the narrowest integer dtype that holds the values exactly
    (uint8 / int16 / int32) when all coordinates are integral, else float64"""
    if len(points) == 0:
        return empty_input(empty_form)
    if as_list is True:
        return [list(p) for p in points]
    if as_list == "narrow":
        flat = [x for p in points for x in p]
        if all(float(x).is_integer() and abs(x) < 2 ** 31 for x in flat):
            lo, hi = min(flat), max(flat)
            dt = np.uint8 if (lo >= 0 and hi <= 255) else np.int16 if (lo >= -32768 and hi <= 32767) else np.int32
            return np.array(points, dtype=dt)
    return np.array(points, dtype=float)


def coord_scale(*dgms):
    s = 0.0
    n = 0
    for d in dgms:
        for p in d:
            s = max(s, abs(p[0]), abs(p[1]))
            n += 1
    return s, n


def call_quiet(ctx, fn, *a, **k):
    with warnings.catch_warnings(record=True) as w:
        warnings.simplefilter("always")
        out = ctx.call(fn, *a, **k)
    return out, [x for x in w if issubclass(x.category, UserWarning)]


def has_dup(d):
    t = [tuple(p) for p in d]
    return len(set(t)) < len(t)


def has_diag(d):
    return any(p[0] == p[1] for p in d)


def pair_labels(ctx, fam, A, B):
    ctx.label("mode:" + fam["mode"])
    sz = max(len(A), len(B))
    ctx.label("size:0" if sz == 0 else "size:1-2" if sz <= 2 else "size:3-5" if sz <= 5 else "size:6-15" if sz <= 15 else "size:>15")
    if len(A) == 0 or len(B) == 0:
        ctx.label("one_empty")
    if has_dup(A) or has_dup(B):
        ctx.label("duplicate")
    if has_diag(A) or has_diag(B):
        ctx.label("diag_point")
    if any(p[0] < 0 for p in A + B):
        ctx.label("negative_coord")


def small_pairs(max_size=5):
    return diagram_family(count=2, min_size=0, max_size=max_size)


def lattice_slice_cases(max_pts=2, L=4):
    """All ordered pairs of multisets of <= max_pts points on {(b, b+l): b,l in 0..L-1}."""
    from itertools import combinations_with_replacement
    pts = [[float(b), float(b + l)] for b in range(L) for l in range(L)]
    multisets = [[]]
    for k in range(1, max_pts + 1):
        multisets += [list(c) for c in combinations_with_replacement(pts, k)]
    for a in multisets:
        for b in multisets:
            yield {"A": a, "B": b}


@st.composite
def near_identical_pair(draw, max_size=5):
    """B = a permuted copy of A whose coordinates are moved by (-3..3) * 10^-k * max|coord|, k in 3..15:
    the regime where the true distance is tiny but not zero"""
    fam = draw(diagram_family(count=1, min_size=1, max_size=max_size, allow_diag=False))
    A = fam["dgms"][0]
    k = draw(st.integers(3, 15))
    s = max(abs(x) for p in A for x in p) or 1.0
    eps = s * 10.0 ** (-k)
    B = []
    for b, d in A:
        nb = b + draw(st.integers(-3, 3)) * eps
        nd = d + draw(st.integers(-3, 3)) * eps
        B.append([nb, max(nb, nd)])
    perm = draw(st.permutations(list(range(len(A)))))
    return {"fam": {"mode": fam["mode"], "scale": fam["scale"], "dgms": [A, [B[i] for i in perm]]}, "k": k}


def decimal_singleton_cases():
    """all ordered pairs of diagrams with <= 1 point on {(b, b+l) * s : b in 0..9, l in 1..9} for decimal steps s: coordinates
    that are not exactly representable, where two mathematically equal candidate costs differ by an ulp"""
    for s in (0.1, 0.01, 1.0 / 3.0, 0.7):
        pts = [[]] + [[[b * s, (b + l) * s]] for b in range(10) for l in range(1, 10)]
        for a in pts:
            for b in pts:
                yield {"A": a, "B": b}
