"""Thorough-tier coverage-guided stage (atheris / libFuzzer) for the branch-heavy pure-Python algorithms."""
import glob
import json
import os
import re
import subprocess
import sys
import time

HERE = os.path.dirname(os.path.abspath(__file__))
VERIF = os.path.dirname(HERE)
RUNS_PER_WORKER = int(os.environ.get("PV_FUZZ_RUNS", "50000"))
WORKERS = int(os.environ.get("PV_FUZZ_WORKERS", "16"))
WALL_CAP = int(os.environ.get("PV_FUZZ_WALL", "900"))


def run(mod, pid, vseed, work, agg):
    try:
        sys.path.insert(0, os.path.join(VERIF, ".deps"))
        import atheris  # noqa: F401
    except Exception as e:  # noqa: BLE001
        return {"status": "skipped", "reason": "atheris not importable: %s" % e}
    out = {"status": "ran", "clauses": {}}
    for cname in mod.FUZZ:
        procs = []
        t0 = time.time()
        for w in range(WORKERS):
            corpus = os.path.join(work, "corpus_%s_%d" % (cname, w))
            os.makedirs(corpus, exist_ok=True)
            rec = os.path.join(work, "fuzz_%s_%d.jsonl" % (cname, w))
            env = dict(os.environ, PYTHONHASHSEED="0", MPLBACKEND="Agg", OMP_NUM_THREADS="1", OPENBLAS_NUM_THREADS="1")
            seed = (vseed * 1000003 + w * 7919 + 1) % (2 ** 31 - 1) or 1
            cmd = [sys.executable, "-m", "pv.fuzz_target", pid, cname, rec, "-runs=%d" % RUNS_PER_WORKER, "-seed=%d" % seed,
                   "-max_len=4096", "-len_control=0", "-timeout=120", "-rss_limit_mb=4096", "-print_final_stats=1", corpus]
            log = open(os.path.join(work, "fuzz_%s_%d.log" % (cname, w)), "w")
            procs.append((w, rec, corpus, subprocess.Popen(cmd, cwd=VERIF, env=env, stdout=log, stderr=subprocess.STDOUT), log))
        info = {"workers": WORKERS, "runs_per_worker": RUNS_PER_WORKER, "execs": 0, "valid_cases": 0, "distinct_nontrivial": 0,
                "failures": 0, "corpus_files": 0, "coverage_features": 0, "edges_covered": 0, "harness_errors": 0, "timed_out": False,
                "corpus": "empty start; each worker its own libFuzzer -seed (derived from VERIF_SEED) and corpus directory"}
        for w, rec, corpus, p, log in procs:
            try:
                p.wait(timeout=max(10, WALL_CAP - (time.time() - t0)))
            except subprocess.TimeoutExpired:
                p.kill()
                info["timed_out"] = True
            log.close()
            last = None
            if os.path.exists(rec):
                for line in open(rec):
                    try:
                        r = json.loads(line)
                    except ValueError:
                        continue
                    if "stats" in r:
                        last = r["stats"]
                    elif "harness_error" in r:
                        info["harness_errors"] += 1
                        info.setdefault("first_harness_error", r["harness_error"])
                    elif "failure" in r:
                        f = r["failure"]
                        a = agg[cname]["failures"].setdefault(f["sig"], {"count": 0, "msg": f["msg"], "cases": [], "hashseed": "0"})
                        a["count"] += 1
                        a["cases"].append(f["case"])
                        a["cases"].sort(key=lambda c: len(json.dumps(c)))
                        del a["cases"][3:]
            if last:
                info["execs"] += last["execs"]
                info["valid_cases"] += last["valid"]
                info["distinct_nontrivial"] += last["distinct_nontrivial"]
                info["failures"] += last["failures"]
            info["corpus_files"] += len(glob.glob(os.path.join(corpus, "*")))
            try:
                txt = open(os.path.join(work, "fuzz_%s_%d.log" % (cname, w))).read()
                m = re.findall(r"cov: (\d+) ft: (\d+)", txt)
                if m:
                    info["edges_covered"] = max(info["edges_covered"], int(m[-1][0]))
                    info["coverage_features"] = max(info["coverage_features"], int(m[-1][1]))
            except OSError:
                pass
        info["wall_s"] = round(time.time() - t0, 1)
        if info["execs"] >= 2000 and info["valid_cases"] == 0:
            # vacuity guard: the byte strings never decoded into a case of the clause's strategy (this happened silently with
            # Hypothesis' fixed_dictionaries of four or more keys, DESIGN 9.2) - a harness error, never a verdict
            out.setdefault("vacuous", []).append(cname)
        out["clauses"][cname] = info
    return out
