"""Offline dependency bootstrap.

Third-party packages the machinery needs beyond what /venv already has are
installed from the offline wheelhouse into /verif/.deps (git-ignored) with
``pip --no-index --target``.  Nothing is ever fetched from a network.  The
function is idempotent and file-locked so that parallel shards do not race.
"""
import fcntl
import importlib
import os
import subprocess
import sys

HERE = os.path.dirname(os.path.abspath(__file__))
VERIF = os.path.dirname(HERE)
DEPS = os.path.join(VERIF, ".deps")
WHEELS = "/opt/veriftools/wheels"
PY = "/venv/bin/python"

REQUIRED = ["hypothesis", "jsonschema"]
OPTIONAL = ["mpmath", "atheris"]


def _importable(name):
    try:
        importlib.import_module(name)
        return True
    except Exception:
        return False


def add_path():
    if DEPS not in sys.path:
        sys.path.insert(0, DEPS)


def ensure(verbose=False):
    """Make REQUIRED importable (and OPTIONAL when the wheelhouse has them)."""
    add_path()
    missing = [m for m in REQUIRED + OPTIONAL if not _importable(m)]
    if not missing:
        return {"installed": [], "missing": []}
    os.makedirs(DEPS, exist_ok=True)
    installed = []
    with open(os.path.join(DEPS, ".lock"), "w") as lock:
        fcntl.flock(lock, fcntl.LOCK_EX)
        importlib.invalidate_caches()
        for mod in missing:
            if _importable(mod):
                continue
            cmd = [PY, "-m", "pip", "install", "--quiet", "--no-index",
                   "--find-links", WHEELS, "--target", DEPS, "--upgrade", mod]
            env = dict(os.environ, PIP_NO_INDEX="1", PIP_DISABLE_PIP_VERSION_CHECK="1")
            r = subprocess.run(cmd, env=env, capture_output=True, text=True)
            if verbose or r.returncode != 0:
                sys.stderr.write("[deps] %s -> rc=%d %s\n" % (mod, r.returncode, r.stderr[-400:]))
            importlib.invalidate_caches()
            if r.returncode == 0:
                installed.append(mod)
    still = [m for m in REQUIRED if not _importable(m)]
    if still:
        raise RuntimeError("required packages unavailable offline: %s" % still)
    return {"installed": installed, "missing": [m for m in OPTIONAL if not _importable(m)]}


if __name__ == "__main__":
    print(ensure(verbose=True))
