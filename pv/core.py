"""Core abstractions shared by every property module.

A *clause* is the unit of checking: a Hypothesis strategy that produces a
JSON-native case (dict / list / float / int / str / bool / None), and a plain
function ``check(case, ctx)`` that runs the code under test against an explicit
oracle.  ``check`` never needs Hypothesis: a replay file is just the JSON case.
"""
import hashlib
import json
import math
import os
import sys
import traceback


class Violation(Exception):
    """The property does not hold on this case (signature = bucket key)."""

    def __init__(self, sig, msg=""):
        super().__init__("%s: %s" % (sig, msg))
        self.sig = sig
        self.msg = msg


class Skip(Exception):
    """The case is outside the property's domain / excluded; counted, not judged."""

    def __init__(self, reason):
        super().__init__(reason)
        self.reason = reason


class CaseTimeout(BaseException):
    """raised by the SIGALRM watchdog: the code under test produced no result"""


CASE_TIME_LIMIT = float(os.environ.get("PV_CASE_TIME_LIMIT", "120"))


def _alarm(signum, frame):
    raise CaseTimeout()


# Documented default values of the public API (from the signatures / docstrings of the pinned release - a literal table, NOT read from the
# code under test, so that a change of a default is seen). Whenever a check passes one of these keywords with exactly its documented default,
# every second such call of the case is made WITHOUT the keyword: callers who rely on the default must get the same behaviour.
DOCUMENTED_DEFAULTS = {
    "bottleneck": {"matching": False}, "wasserstein": {"matching": False}, "heat": {"sigma": 0.4}, "sliced_wasserstein": {"M": 50},
    "persistent_entropy": {"keep_inf": False, "val_inf": None, "normalize": False},
    "PersistenceImager.fit": {"skew": True}, "PersistenceImager.transform": {"skew": True, "n_jobs": None}, "PersistenceImager.fit_transform": {"skew": True},
    "PersistenceImager": {"birth_range": (0.0, 1.0), "pers_range": (0.0, 1.0), "pixel_size": 0.2, "weight_params": {"n": 1.0},
                          "kernel_params": {"sigma": [[1.0, 0.0], [0.0, 1.0]]}},
    "PersLandscapeExact": {"hom_deg": 0, "compute": True}, "PersLandscapeApprox": {"hom_deg": 0, "num_steps": 500, "start": None, "stop": None, "compute": True},
    "PersistenceLandscaper": {"hom_deg": 0, "start": None, "stop": None, "num_steps": 500, "flatten": False},
    "vectorize": {"start": None, "stop": None, "num_steps": 500}, "death_vector": {"hom_deg": 0},
    "PersLandscapeExact.p_norm": {"p": 2}, "PersLandscapeApprox.p_norm": {"p": 2},
    "plot_diagrams": {"plot_only": None, "title": None, "xy_range": None, "labels": None, "diagonal": True, "lifetime": False, "legend": True, "show": False, "ax": None},
    "bottleneck_matching": {"ax": None}, "wasserstein_matching": {"ax": None},
}


def _is_default(v, d):
    if v is None or d is None:
        return v is None and d is None
    if isinstance(d, bool) or isinstance(v, bool):
        return isinstance(d, bool) and isinstance(v, bool) and v == d
    if isinstance(d, (int, float)) and not isinstance(v, (int, float)):
        return False
    try:
        return type(v) in (type(d), tuple, list, dict, int, float) and v == d
    except Exception:  # noqa: BLE001 - arrays etc. are never "the default literal"
        return False


class Ctx:
    """Per-case recorder handed to ``check``."""

    def __init__(self):
        self.labels = []
        self.is_nontrivial = False
        self.notes = {}
        self.cross_value = None
        self._default_calls = 0

    def value(self, v):
        """A result that must be identical in every shard process (e.g. under every hash seed)."""
        self.cross_value = repr(v)

    def label(self, *names):
        for n in names:
            if n is not None:
                self.labels.append(str(n))

    def nontrivial(self, flag=True):
        self.is_nontrivial = bool(flag)

    def require(self, cond, sig, msg=""):
        if not cond:
            raise Violation(sig, msg() if callable(msg) else msg)

    def skip(self, reason):
        raise Skip(reason)

    def call(self, fn, *a, **k):
        """Call the code under test; an undocumented exception is a violation.

        Exceptions raised by *my* code (oracles, generators) must not go through
        here: they propagate and are reported as harness errors (exit 2)."""
        import signal
        armed = False
        if k:
            dd = DOCUMENTED_DEFAULTS.get(getattr(fn, "__qualname__", None) or "")
            if dd and any(kk in dd and _is_default(vv, dd[kk]) for kk, vv in k.items()):
                self._default_calls += 1
                if self._default_calls % 2 == 0:
                    k = {kk: vv for kk, vv in k.items() if not (kk in dd and _is_default(vv, dd[kk]))}
                    if "documented_default_omitted" not in self.labels:
                        self.labels.append("documented_default_omitted")
        if CASE_TIME_LIMIT > 0 and hasattr(signal, "setitimer") and not getattr(self, "_in_call", False):
            try:
                old = signal.signal(signal.SIGALRM, _alarm)
                signal.setitimer(signal.ITIMER_REAL, CASE_TIME_LIMIT)
                armed = True
                self._in_call = True
            except ValueError:      # not in the main thread
                armed = False
        try:
            return fn(*a, **k)
        except (Violation, Skip):
            raise
        except Exception as e:  # noqa: BLE001 - classified below
            raise Violation(exc_signature(e), "%s: %s" % (type(e).__name__, e))
        finally:
            if armed:
                signal.setitimer(signal.ITIMER_REAL, 0)
                signal.signal(signal.SIGALRM, old)
                self._in_call = False

    def raises(self, exc_types, fn, *a, **k):
        """The documented outcome is an exception of one of exc_types."""
        try:
            fn(*a, **k)
        except exc_types:
            return True
        except Exception as e:  # noqa: BLE001
            raise Violation("wrong_exception:" + type(e).__name__, "%s: %s" % (type(e).__name__, e))
        return False


def exc_signature(e):
    """(exception type, innermost frame inside the persim package)."""
    tb = traceback.extract_tb(e.__traceback__)
    where = "?"
    for fr in tb:
        fn = fr.filename.replace("\\", "/")
        if "/persim/" in fn and "/pv/" not in fn:
            where = "%s.%s" % (os.path.basename(fn)[:-3], fr.name)
    return "exc:%s@%s" % (type(e).__name__, where)


class Clause:
    def __init__(self, name, strategy=None, check=None, quick=200, thorough=2000,
                 rule="", cases=None, floors=None, fuzz=False, essential=None, doc="", cross_shard=False, thorough_only=False,
                 machine=None, machine_steps=12):
        self.name = name
        self.strategy = strategy
        self.check = check
        self.quick = quick
        self.thorough = thorough
        self.rule = rule
        self.cases = cases          # callable -> iterable of cases (exhaustive slice)
        self.floors = floors or {}  # label -> minimal fraction (generator-distribution check)
        self.fuzz = fuzz            # eligible for the coverage-guided stage
        self.doc = doc
        self.thorough_only = thorough_only
        # machine(record) -> a hypothesis.stateful.RuleBasedStateMachine subclass whose rules BUILD a history (the same JSON value the
        # data-driven clauses generate) while driving a live object, so that rule arguments can depend on the run-time state; at
        # teardown it hands the finished history to record(case), which judges it with `check` like any other case
        self.machine = machine
        self.machine_steps = machine_steps
        self.cross_shard = cross_shard  # every shard runs the *same* generated cases; values compared across shards

    @property
    def exhaustive(self):
        return self.cases is not None

    def budget(self, tier):
        return self.quick if tier == "quick" else self.thorough


def _ambient():
    """Process-wide settings a caller may legitimately have changed before calling persim (quantified over like the hash seed):
    every second shard runs with NumPy's floating-point error handling set to 'ignore' instead of the default 'warn'.
    Neither setting may change a value or an exception. ('raise', and a warnings filter of "error", are not used: turning the
    floating-point events and warnings that the documented behaviour includes into exceptions is the caller's own request.)"""
    import contextlib
    if os.environ.get("PV_AMBIENT") == "errstate_ignore":
        import numpy as np
        return np.errstate(all="ignore")
    return contextlib.nullcontext()


def run_case(clause, case):
    """Plain execution of one case -> dict(outcome, sig, msg, labels, nontrivial).

    outcome in {"ok", "violation", "skip"}; any other exception propagates."""
    ctx = Ctx()
    # which calls drop their documented-default keywords alternates, starting from a parity that is a pure function of the case
    ctx._default_calls = int(case_hash(case), 16) % 2
    out = {"outcome": "ok", "sig": None, "msg": "", "skip": None}
    import contextlib
    import io
    try:
        with contextlib.redirect_stdout(io.StringIO()), _ambient():   # persim prints notices ("Bad choice of grid ...")
            clause.check(case, ctx)
    except CaseTimeout:
        # raised by the watchdog inside Ctx.call, i.e. while the CODE UNDER TEST was running (never while an oracle runs):
        # typical calls take milliseconds; no result after minutes is reported as non-termination
        out.update(outcome="violation", sig="%s/no_result_within_%ds" % (clause.name, CASE_TIME_LIMIT),
                   msg="the call did not return within %d s (typical call: milliseconds) - non-termination" % CASE_TIME_LIMIT)
    except Violation as v:
        out.update(outcome="violation", sig="%s/%s" % (clause.name, v.sig), msg=v.msg[:600])
    except Skip as s:
        out.update(outcome="skip", skip=s.reason)
    out["labels"] = ctx.labels
    out["value"] = ctx.cross_value
    out["nontrivial"] = ctx.is_nontrivial and out["outcome"] != "skip"
    return out


def case_hash(case):
    return hashlib.sha1(json.dumps(case, sort_keys=True).encode()).hexdigest()[:12]


def derive_seed(*parts):
    h = hashlib.sha256(":".join(str(p) for p in parts).encode()).hexdigest()
    return int(h[:12], 16)


# ----------------------------------------------------------------------------
# tolerances (DESIGN 2.8)

def close(a, b, scale=0.0, rel=1e-9):
    a = float(a)
    b = float(b)
    if math.isnan(a) or math.isnan(b):
        return False
    if a == b:
        return True
    if math.isinf(a) or math.isinf(b):
        return False
    return abs(a - b) <= rel * max(abs(scale), abs(a), abs(b))


def is_real_number(x):
    try:
        if isinstance(x, complex):
            return False
        import numpy as np
        if isinstance(x, np.ndarray):
            if x.shape != ():
                return False
            if np.iscomplexobj(x):
                return False
        x = float(x)
    except Exception:
        return False
    return math.isfinite(x)


# ----------------------------------------------------------------------------
# JSON-level shrinker (bounded ddmin; used instead of Hypothesis' shrinker whose
# wall-clock cap cannot be set)

def _paths(node, prefix=()):
    yield prefix, node
    if isinstance(node, list):
        for i, x in enumerate(node):
            yield from _paths(x, prefix + (i,))
    elif isinstance(node, dict):
        for k in sorted(node):
            yield from _paths(node[k], prefix + (k,))


def _get(node, path):
    for p in path:
        node = node[p]
    return node


def _set(node, path, value):
    if not path:
        return value
    node = json.loads(json.dumps(node))
    cur = node
    for p in path[:-1]:
        cur = cur[p]
    cur[path[-1]] = value
    return node


def _size(case):
    return len(json.dumps(case))


def shrink(clause, case, sig, budget=400, valid=None, wall=60.0):
    """Greedy structural + numeric shrinking keeping the same signature (bounded by calls and wall time)."""
    import time
    calls = [0]
    t_end = time.time() + wall

    def fails(c):
        if calls[0] >= budget or time.time() > t_end:
            calls[0] = budget
            return False
        calls[0] += 1
        try:
            if valid is not None and not valid(c):
                return False
            r = run_case(clause, c)
        except Exception:
            return False
        return r["outcome"] == "violation" and r["sig"] == sig

    best = json.loads(json.dumps(case))
    improved = True
    while improved and calls[0] < budget:
        improved = False
        # 1. delete list elements (longest lists first)
        lists = [(p, n) for p, n in _paths(best) if isinstance(n, list) and len(n) > 0]
        lists.sort(key=lambda pn: -len(pn[1]))
        for p, n in lists:
            try:
                cur = _get(best, p)
            except (KeyError, IndexError, TypeError):
                continue
            if not isinstance(cur, list):
                continue
            i = len(cur) - 1
            while i >= 0 and calls[0] < budget:
                cand_list = cur[:i] + cur[i + 1:]
                cand = _set(best, p, cand_list)
                if fails(cand):
                    best = cand
                    cur = cand_list
                    improved = True
                i -= 1
        # 2. simplify numbers
        for p, n in list(_paths(best)):
            if calls[0] >= budget:
                break
            if isinstance(n, bool) or not isinstance(n, (int, float)):
                continue
            try:
                cur = _get(best, p)
            except (KeyError, IndexError, TypeError):
                continue
            if isinstance(cur, bool) or not isinstance(cur, (int, float)):
                continue
            cands = []
            if isinstance(cur, int):
                cands = [0, 1, cur // 2, cur - 1]
            elif math.isfinite(cur):
                cands = [0.0, 1.0, float(round(cur))] + [round(cur, k) for k in (1, 2, 3, 6)]
            for c in cands:
                if c == cur or (isinstance(cur, int) and c < 0 <= cur):
                    continue
                if _size(_set(best, p, c)) > _size(best):
                    continue
                if repr(c) == repr(cur):
                    continue
                cand = _set(best, p, c)
                if fails(cand):
                    best = cand
                    improved = True
                    break
    return best, calls[0]


def eprint(*a):
    print(*a, file=sys.stderr, flush=True)
