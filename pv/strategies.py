"""Hypothesis strategies shared by the properties.  All produce JSON-native values."""
import math

from hypothesis import strategies as st

SCALE_EXPONENTS = [0, 0, 0, 0, 1, -1, 2, -2, 3, -3, 6, -6, 9, -9, -12]


def finite(lo, hi):
    return st.floats(min_value=lo, max_value=hi, allow_nan=False, allow_infinity=False,
                     allow_subnormal=False, width=64)


def nudge(x, j):
    """x moved by j units in the last place."""
    for _ in range(abs(j)):
        x = math.nextafter(x, math.inf if j > 0 else -math.inf)
    return x


@st.composite
def diagram_family(draw, count=2, min_size=0, max_size=5, allow_diag=True, allow_neg=True,
                   modes=("lattice", "lattice", "float", "mixed", "near"), scales=True, lattice_max=8,
                   float_box=100.0, dup_bias=False, extra_exponents=()):
    """`count` diagrams drawn from one shared coordinate system, so that ties, equal
    births/deaths, touching bars and repeated points occur *between* diagrams too.

    lattice: integer lattice mapped by x -> (x + shift) * 10^k  (exact ties for k >= 0,
             one-ulp near-ties for k < 0);  mixed: lattice points moved by a few ulps;
    near:    lattice points moved by a relative 10^-4 .. 10^-12 (distinct but nearly equal values, the regime
             where a tolerance-based comparison inside the code under test would go wrong);
    float:   arbitrary finite floats in a box.
    Returns {"mode", "dgms": [[[b, d], ...], ...]} with d >= b (d > b unless allow_diag)."""
    mode = draw(st.sampled_from(modes))
    dgms = []
    scale = 1.0
    if mode in ("lattice", "mixed", "near"):
        L = draw(st.integers(2, lattice_max))
        k = draw(st.sampled_from(SCALE_EXPONENTS + list(extra_exponents))) if scales else 0
        scale = 10.0 ** k
        shift = draw(st.integers(-2 * L, 2 * L)) if allow_neg else draw(st.integers(0, L))
        for _ in range(count):
            n = draw(st.integers(min_size, max_size))
            pts = []
            for _ in range(n):
                if dup_bias and pts and draw(st.integers(0, 3)) == 0:
                    pts.append(list(pts[draw(st.integers(0, len(pts) - 1))]))
                    continue
                b = draw(st.integers(0, L))
                ln = draw(st.integers(0 if allow_diag else 1, L))
                bb = (b + shift) * scale
                dd = (b + ln + shift) * scale
                if mode == "mixed" and ln > 0:
                    bb = nudge(bb, draw(st.integers(-2, 2)))
                    dd = nudge(dd, draw(st.integers(-2, 2)))
                if mode == "near" and ln > 0:
                    eps = 10.0 ** (-draw(st.integers(4, 12)))
                    ref = max(abs(bb), abs(dd), scale)
                    bb = bb + draw(st.integers(-3, 3)) * eps * ref
                    dd = dd + draw(st.integers(-3, 3)) * eps * ref
                    if not dd > bb:
                        dd = bb + ln * scale
                pts.append([bb, dd])
            dgms.append(pts)
    else:
        lo = -float_box if allow_neg else 0.0
        for _ in range(count):
            n = draw(st.integers(min_size, max_size))
            pts = []
            for _ in range(n):
                b = draw(finite(lo, float_box))
                if allow_diag and draw(st.integers(0, 7)) == 0:
                    ln = 0.0
                else:
                    ln = draw(finite(1e-6, float_box / 2))
                d = b + ln
                if d <= b and not (allow_diag and ln == 0.0):
                    d = math.nextafter(b, math.inf)
                pts.append([b, d])
            dgms.append(pts)
    return {"mode": mode, "scale": scale, "dgms": dgms}


def permutation_of(n):
    return st.permutations(list(range(n)))


def apply_perm(seq, perm):
    return [seq[i] for i in perm]


def valid_family(fam, allow_diag=True, min_size=0):
    """Domain predicate used by the shrinker (which edits the JSON blindly)."""
    try:
        if not (fam["scale"] > 0) or fam["mode"] not in ("lattice", "mixed", "float", "near"):
            return False
        for d in fam["dgms"]:
            if len(d) < min_size:
                return False
            for p in d:
                if len(p) != 2 or not all(isinstance(x, (int, float)) and math.isfinite(x) for x in p):
                    return False
                if p[1] < p[0] or (not allow_diag and p[1] <= p[0]):
                    return False
    except Exception:
        return False
    return True


def dict_of(mapping):
    """st.fixed_dictionaries for JSON cases, built from st.tuples: Hypothesis' own fixed_dictionaries rejects (almost) every byte
    string handed to fuzz_one_input once it has four or more keys, which made the coverage-guided stage vacuous for such clauses
    (0 valid cases in 5000 executions - measured, see DESIGN 9.2); tuples of any length decode fine."""
    keys = list(mapping)
    return st.tuples(*[mapping[k] for k in keys]).map(lambda t: dict(zip(keys, t)))
